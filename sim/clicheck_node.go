package sim

// C20, boot part (NOT simulation - real process, real CometBFT, loopback sockets, real clock; stated
// as such in DESIGN.md and in the evidence): a single-node chain is initialised and started from the
// default-built binary; it must produce blocks, answer a module query and accept a transaction sent
// through the command line. Only a process that dies or a command that fails is a violation; a
// timeout is inconclusive and merely counted.

import (
	"bytes"
	"encoding/json"
	"fmt"
	"net"
	"net/http"
	"os"
	"os/exec"
	"path/filepath"
	"strings"
	"time"
)

func freePort() int {
	l, err := net.Listen("tcp", "127.0.0.1:0")
	if err != nil {
		return 0
	}
	defer l.Close()
	return l.Addr().(*net.TCPAddr).Port
}

func realNodeProbe(c *cliEnv) (vs []cliViolation, stats map[string]interface{}) {
	stats = map[string]interface{}{}
	home := filepath.Join(c.scratch, "nodehome")
	nc := &cliEnv{bin: c.bin, home: home, scratch: c.scratch}
	step := func(args ...string) (cliResult, bool) {
		r := nc.run(90*time.Second, args...)
		c.runs++
		if r.Panic || r.Exit != 0 {
			vs = append(vs, cliViolation{"boot.node", args[0], fmt.Sprintf("`fundraisingd %s` failed while setting up a single-node chain: exit %d %s", strings.Join(args, " "), r.Exit, tail(firstNonEmpty(r.Err, r.Out), 300)), args})
			return r, false
		}
		return r, true
	}
	if _, ok := step("init", "verifnode", "--chain-id", "verif-real-1"); !ok {
		return
	}
	if _, ok := step("keys", "add", "val", "--keyring-backend", "test"); !ok {
		return
	}
	r, ok := step("keys", "show", "val", "-a", "--keyring-backend", "test")
	if !ok {
		return
	}
	addr := strings.TrimSpace(r.Out)
	if _, ok := step("genesis", "add-genesis-account", addr, "1000000000000stake,1000000000usell,1000000000upay"); !ok {
		return
	}
	if _, ok := step("genesis", "gentx", "val", "1000000000stake", "--chain-id", "verif-real-1", "--keyring-backend", "test"); !ok {
		return
	}
	if _, ok := step("genesis", "collect-gentxs"); !ok {
		return
	}
	if _, ok := step("genesis", "validate"); !ok {
		return
	}
	cfg := filepath.Join(home, "config", "config.toml")
	if b, err := os.ReadFile(cfg); err == nil {
		_ = os.WriteFile(cfg, bytes.ReplaceAll(b, []byte(`timeout_commit = "5s"`), []byte(`timeout_commit = "300ms"`)), 0o644)
	}
	rpc, p2p, grpc := freePort(), freePort(), freePort()
	if rpc == 0 || p2p == 0 || grpc == 0 {
		stats["real_node"] = "inconclusive: no free loopback port"
		return
	}
	var logBuf bytes.Buffer
	cmd := exec.Command(c.bin, "--home", home, "start", "--rpc.laddr", fmt.Sprintf("tcp://127.0.0.1:%d", rpc), "--p2p.laddr", fmt.Sprintf("tcp://127.0.0.1:%d", p2p),
		"--grpc.address", fmt.Sprintf("127.0.0.1:%d", grpc), "--api.enable=false", "--minimum-gas-prices", "0stake")
	cmd.Stdout, cmd.Stderr = &logBuf, &logBuf
	cmd.Env = append(os.Environ(), "HOME="+c.scratch)
	if err := cmd.Start(); err != nil {
		vs = append(vs, cliViolation{"boot.node", "start", "cannot start the node process: " + err.Error(), []string{"start"}})
		return
	}
	exited := make(chan error, 1)
	go func() { exited <- cmd.Wait() }()
	defer func() {
		_ = cmd.Process.Kill()
		<-exited
	}()
	height := func() int64 {
		cl := http.Client{Timeout: 2 * time.Second}
		resp, err := cl.Get(fmt.Sprintf("http://127.0.0.1:%d/status", rpc))
		if err != nil {
			return -1
		}
		defer resp.Body.Close()
		var d struct {
			Result struct {
				SyncInfo struct {
					H string `json:"latest_block_height"`
				} `json:"sync_info"`
			} `json:"result"`
		}
		if json.NewDecoder(resp.Body).Decode(&d) != nil {
			return -1
		}
		var h int64
		fmt.Sscan(d.Result.SyncInfo.H, &h)
		return h
	}
	waitHeight := func(min int64, limit time.Duration) (int64, bool, bool) {
		dl := time.Now().Add(limit)
		for time.Now().Before(dl) {
			select {
			case <-exited:
				exited <- nil
				return 0, false, true
			default:
			}
			if h := height(); h >= min {
				return h, true, false
			}
			time.Sleep(300 * time.Millisecond)
		}
		return height(), false, false
	}
	h, ok2, died := waitHeight(3, 60*time.Second)
	if died {
		if strings.Contains(logBuf.String(), "address already in use") {
			stats["real_node"] = "inconclusive: a loopback port was taken by another process"
			return
		}
		vs = append(vs, cliViolation{"boot.node", "start", "the node process exited before producing blocks: " + tail(logBuf.String(), 400), []string{"start"}})
		return
	}
	if !ok2 {
		stats["real_node"] = fmt.Sprintf("inconclusive: height %d after 60 s", h)
		return
	}
	stats["real_node_height_reached"] = h
	node := fmt.Sprintf("tcp://127.0.0.1:%d", rpc)
	if r := nc.run(60*time.Second, "query", "fundraising", "params", "--node", node, "--output", "json"); r.Exit != 0 || r.Panic {
		vs = append(vs, cliViolation{"boot.node", "query-params", "`query fundraising params` against the running node failed: " + tail(firstNonEmpty(r.Err, r.Out), 300), []string{"query", "fundraising", "params"}})
	}
	c.runs++
	// one transaction through the command line, signed and broadcast by the binary itself
	now := time.Now().UTC()
	txArgs := []string{"tx", "fundraising", "create-fixed-price-auction", "2500000000000000000", "1000usell", "upay",
		fmt.Sprintf(`{"release_time":%q,"weight":"1000000000000000000"}`, now.Add(72*time.Hour).Format(time.RFC3339)),
		now.Add(time.Hour).Format(time.RFC3339), now.Add(48 * time.Hour).Format(time.RFC3339),
		"--from", "val", "--keyring-backend", "test", "--chain-id", "verif-real-1", "--node", node, "--yes", "--output", "json", "--gas", "1000000"}
	r = nc.run(60*time.Second, txArgs...)
	c.runs++
	var txr struct {
		Code   int    `json:"code"`
		TxHash string `json:"txhash"`
		RawLog string `json:"raw_log"`
	}
	if r.Exit != 0 || r.Panic || json.Unmarshal([]byte(r.Out), &txr) != nil || txr.TxHash == "" {
		vs = append(vs, cliViolation{"boot.node", "tx-broadcast", "broadcasting create-fixed-price-auction through the command line failed: " + tail(firstNonEmpty(r.Err, r.Out), 300), txArgs})
		return
	}
	if txr.Code != 0 {
		vs = append(vs, cliViolation{"boot.node", "tx-checktx", fmt.Sprintf("the node refused the transaction the command line built (code %d): %s", txr.Code, tail(txr.RawLog, 300)), txArgs})
		return
	}
	h0 := height()
	if _, okh, died := waitHeight(h0+3, 30*time.Second); died {
		vs = append(vs, cliViolation{"boot.node", "start", "the node process died after receiving the transaction: " + tail(logBuf.String(), 400), txArgs})
		return
	} else if !okh {
		stats["real_node_tx"] = "inconclusive: no new blocks within 30 s"
		return
	}
	r = nc.run(60*time.Second, "query", "tx", txr.TxHash, "--node", node, "--output", "json")
	c.runs++
	var qr struct {
		Code   int    `json:"code"`
		RawLog string `json:"raw_log"`
	}
	if r.Exit != 0 || json.Unmarshal([]byte(r.Out), &qr) != nil {
		stats["real_node_tx"] = "inconclusive: query tx failed: " + tail(firstNonEmpty(r.Err, r.Out), 120)
		return
	}
	if qr.Code != 0 {
		vs = append(vs, cliViolation{"boot.node", "tx-deliver", fmt.Sprintf("create-fixed-price-auction sent through the command line was rejected by the chain (code %d): %s", qr.Code, tail(qr.RawLog, 300)), txArgs})
		return
	}
	stats["real_node_tx"] = "create-fixed-price-auction built, signed and broadcast by the binary was included with code 0"
	return
}
