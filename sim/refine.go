package sim

// Refinement check: implementation vs reference model, tx by tx and block by
// block, with every disagreement routed to the properties it speaks to.

import (
	"fmt"
	"math/big"
	"strings"
)

func propsForAccept(e *execState, tx *Tx, o *txObs) []string {
	ps := []string{"C18"}
	reason := o.Model.Reason
	switch tx.Msg.Kind {
	case KPlaceBid:
		a := e.modelAuctionBefore(tx.Msg.AuctionID)
		if a != nil && a.Type == TypeFixed {
			ps = append(ps, "C06")
		}
		if strings.Contains(reason, "not open") {
			ps = append(ps, "C08")
		}
		if strings.Contains(reason, "allow-listed") {
			ps = append(ps, "C10")
		}
		if strings.Contains(reason, "allowance") {
			ps = append(ps, "C05")
		}
	case KModifyBid:
		ps = append(ps, "C11")
		if strings.Contains(reason, "not open") {
			ps = append(ps, "C08")
		}
	case KCancel:
		ps = append(ps, "C12")
		if strings.Contains(reason, "not waiting") {
			ps = append(ps, "C08")
		}
	case KAddAllowed:
		ps = append(ps, "C10")
	}
	return ps
}

func (e *execState) modelAuctionBefore(id uint64) *MAuction {
	if id < uint64(len(e.model.Auctions)) {
		return e.model.Auctions[id]
	}
	return nil
}

func propsForTransfers(tx *Tx) []string {
	// escrow equations (C01) are checked from the implementation's own records after every block
	switch tx.Msg.Kind {
	case KPlaceBid:
		return []string{"C02", "C04"}
	case KModifyBid:
		return []string{"C11", "C02"}
	case KCancel:
		return []string{"C12", "C02"}
	}
	return []string{"C02"}
}

func propsForField(f string) []string {
	switch {
	case f == "status":
		return []string{"C08"}
	case f == "end_times":
		return []string{"C13"} // the first end time's immutability is C19's own oracle (terms.first_end_time)
	case f == "last_matched_len":
		return []string{"C13"}
	case f == "remaining":
		return []string{"C06"} // the zeroed remainder of a cancelled auction is C12's own oracle (cancel.remainder)
	case f == "matched_price", f == "bid_matched":
		return []string{"C16"}
	case f == "queue_released":
		return []string{"C16", "C09"}
	case f == "queue", f == "queue_count":
		return []string{"C09"}
	case strings.HasPrefix(f, "allowed["):
		return []string{"C10", "C05"} // who may bid, and how much the allow-list granted
	case f == "bid", f == "bid_count":
		// interference between auctions is decided without the model (project.go, frame oracles)
		return []string{"C11", "C18"}
	case f == "bid_seq", f == "auction_seq", f == "auction_count", f == "id", f == "orphan":
		return []string{"C19"}
	case strings.HasPrefix(f, "params."):
		return []string{"C18"}
	case strings.HasPrefix(f, "balance["):
		return []string{"C02"}
	}
	// immutable terms
	return []string{"C19"}
}

// refine compares the block's observable behaviour with the model. Returns
// true if they diverged (the run stops: later expectations would be noise).
func (e *execState) refine(bo *blockObs) bool {
	res := e.res
	bi := bo.Idx
	div := false
	add := func(props []string, rule, key, detail string, tx int) {
		seen := map[string]bool{}
		for _, p := range props {
			if !seen[p] {
				seen[p] = true
				res.addV(p, rule, key, detail, bi, tx)
			}
		}
		div = true
	}
	// keeper-API operations
	for i, po := range bo.PreRes {
		implOK := po.ImplErr == nil
		if implOK != po.Model.OK && !po.Model.DontCare {
			props := []string{"C18"}
			if po.Op.Kind != OUpdateParams {
				props = append(props, "C10")
			}
			add(props, "op.accept", po.Op.Kind, fmt.Sprintf("keeper op %d %s: model ok=%v (%s) impl err=%v", i, po.Op.Kind, po.Model.OK, po.Model.Reason, po.ImplErr), -1)
		}
	}
	// begin-block transfers
	implBegin := normCalls(bo.Begin)
	if ok, _ := sameTransfers(bo.BeginFx.Transfers, implBegin); !ok && e.orderAmbiguityOnly(bo, implBegin) {
		// L8, payments: in an order book of more than 12 bids the order of bids *within* a price level is
		// not specified (the implementation's sort is only stable up to 12), and when a bidder's allowance
		// cuts among several of that bidder's bids at one level, which of them is cut decides how the
		// per-bid round-ups add up: payments may differ by less than one unit per bid while allocations are
		// the same. The model cannot predict that sum; the run goes on without it (the payment bounds of
		// C04 are checked from the implementation's own records either way).
		res.Stats.Relax["L8_payment_order"]++
		return true
	}
	if ok, d := sameTransfers(bo.BeginFx.Transfers, implBegin); !ok {
		props := e.classifyBeginMismatch(bo, implBegin)
		var rest []string
		for _, p := range props {
			if p != "C03" {
				rest = append(rest, p)
				continue
			}
			// C03's own rule: the clearing of a batch order book
			for _, ev := range bo.BeginFx.Events {
				var id uint64
				if n, _ := fmt.Sscanf(ev, "settle:%d", &id); n == 1 {
					if a := e.modelAuctionBefore(id); a != nil && a.Type == TypeBatch {
						own := func(ts []MTransfer) []MTransfer {
							var out []MTransfer
							for _, t := range ts {
								if t.From == a.SellEscrow || t.From == a.PayEscrow {
									out = append(out, t)
								}
							}
							return out
						}
						if same, _ := sameTransfers(own(bo.BeginFx.Transfers), own(implBegin)); same {
							continue
						}
						if id >= uint64(len(bo.Cur.Auctions)) || (bo.Cur.Auctions[id].Status != StVesting && bo.Cur.Auctions[id].Status != StFinished) {
							continue // the implementation did not settle in this block: a matter of the extension rule (C13), not of the clearing
						}
						key := "order-book"
						if a.DustTop {
							key = "dust-bid-on-top"
						}
						sold := "nothing"
						if a.MatchedPrice != nil && a.MatchedPrice.Sign() > 0 {
							sold = "clearing price " + decString(a.MatchedPrice)
						}
						res.addV("C03", "batch.clearing", key, fmt.Sprintf("auction %d settlement: the lowest bid price whose capped demand fits supply gives %s with allocations %v; the implementation transferred %v", id, sold, bigMapStr(a.Alloc), trList(own(implBegin))), bi, -1)
					}
				}
			}
		}
		add(rest, "begin.transfers", e.beginKey(bo), "begin-block transfers differ: "+d, -1)
	}
	// transactions
	for i := range bo.Txs {
		o := &bo.Txs[i]
		tx := &bo.Blk.Txs[o.Idx]
		implOK := o.Code == 0
		if implOK != o.Model.OK {
			rule := "tx.accept"
			if o.Model.AnteFail || o.Copy == 1 {
				rule = "tx.accept.ante"
			}
			dir := "accepted-but-must-reject"
			if !implOK {
				dir = "rejected-but-must-accept"
			}
			add(propsForAccept(e, tx, o), rule, tx.Msg.Kind+":"+dir, fmt.Sprintf("tx %d (%s, note=%q): model ok=%v reason=%q; impl code=%d log=%q", o.Idx, tx.Msg.Kind, tx.Note, o.Model.OK, o.Model.Reason, o.Code, abbreviate(o.Log)), o.Idx)
			continue
		}
		if implOK && tx.Msg.Kind != KSend {
			if ok, d := sameTransfers(o.Model.Transfers, normCalls(o.Calls)); !ok {
				add(propsForTransfers(tx), "tx.transfers", tx.Msg.Kind, fmt.Sprintf("tx %d (%s) transfers differ: %s", o.Idx, tx.Msg.Kind, d), o.Idx)
			}
		}
	}
	// state
	ms := SnapFromModel(e.model, e.tracked)
	for _, d := range DiffSnaps(ms, bo.Cur) {
		if d.Field == "matched_price" || d.Field == "bid_matched" {
			// published results: C16's own oracle reports these; they do not influence behaviour
			e.c16Published(bo, d)
			continue
		}
		if d.Field == "last_matched_len" && e.ambiguousMatched(d.Auction) {
			res.Stats.Relax["matched_len_order"]++
			continue
		}
		add(propsForField(d.Field), "state."+fieldClass(d.Field), fieldClass(d.Field), fmt.Sprintf("after block %d: %s", bi, d.String()), -1)
	}
	return div
}

func fieldClass(f string) string {
	if i := strings.IndexByte(f, '['); i >= 0 {
		return f[:i]
	}
	return f
}

func (e *execState) ambiguousMatched(auc int64) bool {
	if auc < 0 || int(auc) >= len(e.model.Auctions) {
		return false
	}
	return e.model.Auctions[auc].AmbiguousCap
}

func (e *execState) beginKey(bo *blockObs) string {
	ks := []string{}
	for _, ev := range bo.BeginFx.Events {
		ks = append(ks, strings.SplitN(ev, ":", 2)[0])
	}
	return strings.Join(dedup(ks), "+")
}

func dedup(in []string) []string {
	seen := map[string]bool{}
	var out []string
	for _, s := range in {
		if !seen[s] {
			seen[s] = true
			out = append(out, s)
		}
	}
	return out
}

// classifyBeginMismatch: which properties does a begin-block transfer
// disagreement speak to? The transfers of each auction are split by what they
// are (allocations, refunds, proceeds / unsold coins, releases) and only the
// properties that state something about the part that differs are named;
// escrow equations (C01), payment bounds (C04), allowance and supply bounds
// (C05) and the instalment split (C09) have oracles of their own that read the
// implementation's records and do not need the model.
func (e *execState) classifyBeginMismatch(bo *blockObs, impl []MTransfer) []string {
	set := map[string]bool{"C02": true}
	model := bo.BeginFx.Transfers
	attributed := false
	sub := func(ts []MTransfer, f func(t MTransfer) bool) []MTransfer {
		var out []MTransfer
		for _, t := range ts {
			if f(t) {
				out = append(out, t)
			}
		}
		return out
	}
	differ := func(f func(t MTransfer) bool) bool {
		same, _ := sameTransfers(sub(model, f), sub(impl, f))
		return !same
	}
	for _, a := range e.model.Auctions {
		a := a
		settleF := func(t MTransfer) bool { return t.From == a.SellEscrow || t.From == a.PayEscrow }
		ms, is := sub(model, settleF), sub(impl, settleF)
		if (len(ms) == 0) != (len(is) == 0) {
			// one side settled (or extended) where the other did not
			attributed = true
			set["C08"] = true
			if a.Type == TypeBatch {
				set["C13"] = true
			}
			continue
		}
		if differ(func(t MTransfer) bool { return t.From == a.SellEscrow && t.To != a.Auctioneer }) {
			attributed = true
			if a.Type == TypeBatch {
				set["C03"] = true
			} else {
				set["C06"] = true
			}
		}
		if differ(func(t MTransfer) bool { return t.From == a.PayEscrow && t.To != a.VestEscrow && t.To != a.Auctioneer }) {
			attributed = true
			set["C04"] = true
			// the same quantities at another price: a clearing matter if the implementation also
			// publishes a price other than the lowest one whose capped demand fits
			if a.Type == TypeBatch && a.MatchedPrice != nil && bo.Cur != nil && a.ID < uint64(len(bo.Cur.Auctions)) {
				if ip, ok := parseDec(bo.Cur.Auctions[a.ID].MatchedPrice); ok && ip.Cmp(a.MatchedPrice) != 0 {
					set["C03"] = true
				}
			}
		}
		if differ(func(t MTransfer) bool {
			return (t.From == a.PayEscrow && (t.To == a.VestEscrow || t.To == a.Auctioneer)) || (t.From == a.SellEscrow && t.To == a.Auctioneer)
		}) {
			attributed = true // proceeds or unsold coins: who ends up with what (C02)
		}
		if differ(func(t MTransfer) bool { return t.From == a.VestEscrow }) {
			attributed = true
			set["C09"] = true
		}
	}
	if !attributed {
		set["C08"] = true
	}
	var props []string
	for _, p := range []string{"C02", "C03", "C04", "C06", "C08", "C09", "C13"} {
		if set[p] {
			props = append(props, p)
		}
	}
	return props
}

// orderAmbiguityOnly: every auction whose begin-block transfers differ from the model's is a batch
// auction with more than 12 bids in which a cap cut a bidder with several bids (model flag), and the
// coins allocated to each bidder are the same on both sides.
func (e *execState) orderAmbiguityOnly(bo *blockObs, impl []MTransfer) bool {
	model := bo.BeginFx.Transfers
	some := false
	for _, a := range e.model.Auctions {
		a := a
		own := func(ts []MTransfer, f func(t MTransfer) bool) []MTransfer {
			var out []MTransfer
			for _, t := range ts {
				if f(t) {
					out = append(out, t)
				}
			}
			return out
		}
		all := func(t MTransfer) bool { return t.From == a.SellEscrow || t.From == a.PayEscrow || t.From == a.VestEscrow }
		if same, _ := sameTransfers(own(model, all), own(impl, all)); same {
			continue
		}
		if a.Type != TypeBatch || !a.AmbiguousCap || len(a.Bids) <= 12 {
			return false
		}
		alloc := func(t MTransfer) bool { return t.From == a.SellEscrow }
		if same, _ := sameTransfers(own(model, alloc), own(impl, alloc)); !same {
			return false
		}
		if same, _ := sameTransfers(own(model, func(t MTransfer) bool { return t.From == a.VestEscrow }), own(impl, func(t MTransfer) bool { return t.From == a.VestEscrow })); !same {
			return false
		}
		some = true
	}
	return some
}

func bigMapStr(m map[string]*big.Int) string {
	var sb strings.Builder
	for _, k := range sortedKeys(m) {
		if m[k].Sign() != 0 {
			fmt.Fprintf(&sb, "%s=%s ", short(k), m[k])
		}
	}
	return "{" + strings.TrimSpace(sb.String()) + "}"
}
