package sim

// C16 (second sentence): queries by id and filtered listings, issued through
// the application's real ABCI Query path (gRPC query router -> query server),
// must return exactly the stored objects that satisfy the request.

import (
	"fmt"
	"sort"
	"strings"

	abci "github.com/cometbft/cometbft/abci/types"
	"github.com/cosmos/cosmos-sdk/types/query"
	"github.com/cosmos/gogoproto/proto"

	"github.com/tendermint/fundraising/x/fundraising/types"
)

const qPrefix = "/fundraising.fundraising.v1.Query/"

func (n *Node) grpcQuery(method string, req proto.Message, resp proto.Message) (uint32, string, error) {
	bz, err := proto.Marshal(req)
	if err != nil {
		return 0, "", err
	}
	r, err := n.App.Query(nil, &abci.RequestQuery{Path: qPrefix + method, Data: bz})
	if err != nil {
		return 1, err.Error(), nil
	}
	if r.Code != 0 {
		return r.Code, r.Log, nil
	}
	return 0, "", proto.Unmarshal(r.Value, resp)
}

var statusNames = map[int]string{StStandby: "AUCTION_STATUS_STANDBY", StStarted: "AUCTION_STATUS_STARTED", StVesting: "AUCTION_STATUS_VESTING", StFinished: "AUCTION_STATUS_FINISHED", StCancelled: "AUCTION_STATUS_CANCELLED"}
var typeNames = map[int]string{TypeFixed: "AUCTION_TYPE_FIXED_PRICE", TypeBatch: "AUCTION_TYPE_BATCH"}

func (e *execState) qv(bo *blockObs, rule, key, detail string) {
	e.res.addV("C16", rule, key, detail, bo.Idx, -1)
}

// pageAll walks a paginated listing with the given page size and returns the
// concatenation of all pages.
func pageAll(limit uint64, fetch func(p *query.PageRequest) (n int, next []byte, err error)) error {
	var key []byte
	for guard := 0; guard < 10000; guard++ {
		pr := &query.PageRequest{Key: key, Limit: limit}
		_, next, err := fetch(pr)
		if err != nil {
			return err
		}
		if len(next) == 0 {
			return nil
		}
		key = next
	}
	return fmt.Errorf("pagination did not terminate")
}

func (e *execState) checkQueries(bo *blockObs) {
	n := e.node
	cur := bo.Cur
	st := e.res.Stats
	e.queryRng = e.queryRng*6364136223846793005 + 1442695040888963407 + uint64(bo.Idx)
	limit := uint64(1 + (e.queryRng>>33)%4)

	// ---- params
	{
		var resp types.QueryParamsResponse
		code, log, err := n.grpcQuery("Params", &types.QueryParamsRequest{}, &resp)
		st.QueryChecks++
		if err != nil || code != 0 {
			e.qv(bo, "query.params", "params", fmt.Sprintf("params query failed: code=%d %s %v", code, log, err))
		} else if resp.Params.ExtendedPeriod != cur.ExtPeriod {
			e.qv(bo, "query.params", "params", "params query returned a different extended period than stored")
		}
	}
	// ---- auctions by id
	for _, a := range cur.Auctions {
		var resp types.QueryGetAuctionResponse
		code, log, err := n.grpcQuery("GetAuction", &types.QueryGetAuctionRequest{AuctionId: a.ID}, &resp)
		st.QueryChecks++
		if err != nil || code != 0 || resp.Auction == nil {
			e.qv(bo, "query.get_auction", "get", fmt.Sprintf("GetAuction(%d) failed: code=%d %s %v", a.ID, code, log, err))
			continue
		}
		au, err := types.UnpackAuction(resp.Auction)
		if err != nil || au.GetId() != a.ID || int(au.GetStatus()) != a.Status {
			e.qv(bo, "query.get_auction", "get", fmt.Sprintf("GetAuction(%d) returned a different object", a.ID))
		}
	}
	{
		var resp types.QueryGetAuctionResponse
		code, _, _ := n.grpcQuery("GetAuction", &types.QueryGetAuctionRequest{AuctionId: uint64(len(cur.Auctions)) + 5}, &resp)
		st.QueryChecks++
		if code == 0 {
			e.qv(bo, "query.get_auction", "missing", "GetAuction of a missing id succeeded")
		}
	}
	// ---- auction listing with every status/type filter
	for _, sf := range []int{0, StStandby, StStarted, StVesting, StFinished, StCancelled} {
		for _, tf := range []int{0, TypeFixed, TypeBatch} {
			var want []uint64
			for _, a := range cur.Auctions {
				if (sf == 0 || a.Status == sf) && (tf == 0 || a.Type == tf) {
					want = append(want, a.ID)
				}
			}
			var got []uint64
			err := pageAll(limit, func(p *query.PageRequest) (int, []byte, error) {
				var resp types.QueryAllAuctionResponse
				code, log, err := n.grpcQuery("ListAuction", &types.QueryAllAuctionRequest{Status: statusNames[sf], Type: typeNames[tf], Pagination: p}, &resp)
				if err != nil || code != 0 {
					return 0, nil, fmt.Errorf("code=%d %s %v", code, log, err)
				}
				for _, any := range resp.Auction {
					au, err := types.UnpackAuction(any)
					if err != nil {
						return 0, nil, err
					}
					got = append(got, au.GetId())
				}
				if resp.Pagination == nil {
					return len(resp.Auction), nil, nil
				}
				return len(resp.Auction), resp.Pagination.NextKey, nil
			})
			st.QueryChecks++
			if err != nil {
				e.qv(bo, "query.list_auction", "error", fmt.Sprintf("ListAuction(status=%q,type=%q) failed: %v", statusNames[sf], typeNames[tf], err))
			} else if fmt.Sprint(got) != fmt.Sprint(want) {
				e.qv(bo, "query.list_auction", "filter", fmt.Sprintf("ListAuction(status=%q,type=%q) returned %v, stored objects satisfying the request are %v", statusNames[sf], typeNames[tf], got, want))
			}
		}
	}
	// ---- bids
	type bk struct{ a, b uint64 }
	for _, a := range cur.Auctions {
		for _, b := range a.Bids {
			var resp types.QueryGetBidResponse
			code, log, err := n.grpcQuery("GetBid", &types.QueryGetBidRequest{AuctionId: a.ID, BidId: b.ID}, &resp)
			st.QueryChecks++
			if err != nil || code != 0 {
				e.qv(bo, "query.get_bid", "get", fmt.Sprintf("GetBid(%d,%d) failed: code=%d %s %v", a.ID, b.ID, code, log, err))
			} else if resp.Bid.AuctionId != a.ID || resp.Bid.Id != b.ID || resp.Bid.Bidder != b.Bidder || resp.Bid.IsMatched != b.Matched || resp.Bid.Price.String() != b.Price {
				e.qv(bo, "query.get_bid", "get", fmt.Sprintf("GetBid(%d,%d) returned a different object", a.ID, b.ID))
			}
		}
		var resp types.QueryGetBidResponse
		code, _, _ := n.grpcQuery("GetBid", &types.QueryGetBidRequest{AuctionId: a.ID, BidId: uint64(len(a.Bids)) + 1}, &resp)
		st.QueryChecks++
		if code == 0 {
			e.qv(bo, "query.get_bid", "missing", fmt.Sprintf("GetBid(%d,%d) of a missing bid succeeded", a.ID, len(a.Bids)+1))
		}
	}
	for _, a := range cur.Auctions {
		bidders := map[string]bool{"": true}
		for _, b := range a.Bids {
			bidders[b.Bidder] = true
		}
		for _, bidder := range sortedBoolKeys(bidders) {
			for _, im := range []string{"", "true", "false"} {
				var want []bk
				for _, b := range a.Bids {
					if (bidder == "" || b.Bidder == bidder) && (im == "" || fmt.Sprint(b.Matched) == im) {
						want = append(want, bk{a.ID, b.ID})
					}
				}
				var got []bk
				// one request in three spells the bidder in upper-case bech32: the same account
				spelt := bidder
				if bidder != "" && im == "true" {
					spelt = strings.ToUpper(bidder)
				}
				err := pageAll(limit, func(p *query.PageRequest) (int, []byte, error) {
					var resp types.QueryAllBidResponse
					code, log, err := n.grpcQuery("ListBid", &types.QueryAllBidRequest{AuctionId: a.ID, Bidder: spelt, IsMatched: im, Pagination: p}, &resp)
					if err != nil || code != 0 {
						return 0, nil, fmt.Errorf("code=%d %s %v", code, log, err)
					}
					for _, b := range resp.Bid {
						got = append(got, bk{b.AuctionId, b.Id})
					}
					if resp.Pagination == nil {
						return len(resp.Bid), nil, nil
					}
					return len(resp.Bid), resp.Pagination.NextKey, nil
				})
				st.QueryChecks++
				key := "auction_id"
				if bidder != "" {
					key += "+bidder"
				}
				if im != "" {
					key += "+is_matched"
				}
				if spelt != bidder {
					key += "+upper-case-spelling"
				}
				if err == nil && bidder == "" && im == "" && len(want) > 1 {
					// one large page in reverse order: the same bids, last first
					var resp types.QueryAllBidResponse
					code, log, qerr := n.grpcQuery("ListBid", &types.QueryAllBidRequest{AuctionId: a.ID, Pagination: &query.PageRequest{Limit: 5000, Reverse: true}}, &resp)
					st.QueryChecks++
					var rev []bk
					for _, b := range resp.Bid {
						rev = append(rev, bk{b.AuctionId, b.Id})
					}
					wantRev := make([]bk, len(want))
					for i := range want {
						wantRev[len(want)-1-i] = want[i]
					}
					if qerr != nil || code != 0 {
						e.qv(bo, "query.list_bid", "error", fmt.Sprintf("ListBid(auction=%d, limit 5000, reverse) failed: code=%d %s %v", a.ID, code, log, qerr))
					} else if fmt.Sprint(rev) != fmt.Sprint(wantRev) {
						e.qv(bo, "query.list_bid", "reverse+large-limit", fmt.Sprintf("ListBid(auction=%d, limit 5000, reverse) returned %v, the request asks for %v", a.ID, abbreviate(fmt.Sprint(rev)), abbreviate(fmt.Sprint(wantRev))))
					}
				}
				if err != nil {
					e.qv(bo, "query.list_bid", "error", fmt.Sprintf("ListBid(auction=%d,bidder=%q,is_matched=%q) failed: %v", a.ID, short(bidder), im, err))
				} else if fmt.Sprint(got) != fmt.Sprint(want) {
					e.qv(bo, "query.list_bid", key, fmt.Sprintf("ListBid(auction=%d,bidder=%q,is_matched=%q) returned %v, stored bids satisfying the request are %v", a.ID, short(bidder), im, got, want))
				}
			}
		}
	}
	// ---- allow-list
	for _, a := range cur.Auctions {
		ks := make([]string, 0, len(a.Allowed))
		for k := range a.Allowed {
			ks = append(ks, k)
		}
		sort.Strings(ks)
		for _, k := range ks {
			var resp types.QueryGetAllowedBidderResponse
			code, log, err := n.grpcQuery("GetAllowedBidder", &types.QueryGetAllowedBidderRequest{AuctionId: a.ID, Bidder: k}, &resp)
			st.QueryChecks++
			if err != nil || code != 0 {
				e.qv(bo, "query.get_allowed_bidder", "get", fmt.Sprintf("GetAllowedBidder(%d,%s) failed: code=%d %s %v", a.ID, short(k), code, log, err))
			} else if resp.AllowedBidder.AuctionId != a.ID || resp.AllowedBidder.Bidder != k || resp.AllowedBidder.MaxBidAmount.String() != a.Allowed[k] {
				e.qv(bo, "query.get_allowed_bidder", "get", fmt.Sprintf("GetAllowedBidder(%d,%s) returned a different object", a.ID, short(k)))
			}
		}
		for _, ac := range e.actors {
			if _, ok := a.Allowed[ac.Bech]; !ok {
				var resp types.QueryGetAllowedBidderResponse
				code, _, _ := n.grpcQuery("GetAllowedBidder", &types.QueryGetAllowedBidderRequest{AuctionId: a.ID, Bidder: ac.Bech}, &resp)
				st.QueryChecks++
				if code == 0 {
					e.qv(bo, "query.get_allowed_bidder", "missing", fmt.Sprintf("GetAllowedBidder(%d,%s) of a missing entry succeeded", a.ID, short(ac.Bech)))
				}
				break
			}
		}
		var got []string
		err := pageAll(limit, func(p *query.PageRequest) (int, []byte, error) {
			var resp types.QueryAllAllowedBidderResponse
			code, log, err := n.grpcQuery("ListAllowedBidder", &types.QueryAllAllowedBidderRequest{AuctionId: a.ID, Pagination: p}, &resp)
			if err != nil || code != 0 {
				return 0, nil, fmt.Errorf("code=%d %s %v", code, log, err)
			}
			for _, ab := range resp.AllowedBidder {
				got = append(got, fmt.Sprintf("%d/%s", ab.AuctionId, ab.Bidder))
			}
			if resp.Pagination == nil {
				return len(resp.AllowedBidder), nil, nil
			}
			return len(resp.AllowedBidder), resp.Pagination.NextKey, nil
		})
		st.QueryChecks++
		var want []string
		for _, k := range ks {
			want = append(want, fmt.Sprintf("%d/%s", a.ID, k))
		}
		sort.Strings(got)
		sort.Strings(want)
		if err != nil {
			e.qv(bo, "query.list_allowed_bidder", "error", fmt.Sprintf("ListAllowedBidder(auction=%d) failed: %v", a.ID, err))
		} else if strings.Join(got, ",") != strings.Join(want, ",") {
			e.qv(bo, "query.list_allowed_bidder", "auction_id", fmt.Sprintf("ListAllowedBidder(auction=%d) returned %d entries %v, the auction's allow-list has %d", a.ID, len(got), abbreviate(fmt.Sprint(got)), len(want)))
		}
	}
	// ---- vesting queue
	for _, a := range cur.Auctions {
		var got, want []string
		err := pageAll(limit, func(p *query.PageRequest) (int, []byte, error) {
			var resp types.QueryAllVestingQueueResponse
			code, log, err := n.grpcQuery("ListVestingQueue", &types.QueryAllVestingQueueRequest{AuctionId: a.ID, Pagination: p}, &resp)
			if err != nil || code != 0 {
				return 0, nil, fmt.Errorf("code=%d %s %v", code, log, err)
			}
			for _, q := range resp.VestingQueue {
				got = append(got, fmt.Sprintf("%d/%d/%s/%v", q.AuctionId, nsOf(q.ReleaseTime), q.PayingCoin.Amount, q.Released))
			}
			if resp.Pagination == nil {
				return len(resp.VestingQueue), nil, nil
			}
			return len(resp.VestingQueue), resp.Pagination.NextKey, nil
		})
		st.QueryChecks++
		for _, q := range a.Queue {
			want = append(want, fmt.Sprintf("%d/%d/%s/%v", a.ID, q.ReleaseNs, q.Amt, q.Released))
		}
		if err != nil {
			e.qv(bo, "query.list_vesting_queue", "error", fmt.Sprintf("ListVestingQueue(auction=%d) failed: %v", a.ID, err))
		} else if strings.Join(got, ",") != strings.Join(want, ",") {
			e.qv(bo, "query.list_vesting_queue", "auction_id", fmt.Sprintf("ListVestingQueue(auction=%d) returned %d entries, the auction has %d instalments", a.ID, len(got), len(want)))
		}
	}
}

// queryNoise: between FinalizeBlock and Commit the query path must answer from the last committed
// state (the block being executed is not visible yet).
func (e *execState) queryNoise(bo *blockObs, prev *Snap) {
	n := e.node
	for _, a := range prev.Auctions {
		var resp types.QueryGetAuctionResponse
		code, log, err := n.grpcQuery("GetAuction", &types.QueryGetAuctionRequest{AuctionId: a.ID}, &resp)
		if err != nil || code != 0 || resp.Auction == nil {
			e.res.addV("C16", "query.mid_block", "error", fmt.Sprintf("GetAuction(%d) between FinalizeBlock and Commit failed: code=%d %s %v", a.ID, code, log, err), bo.Idx, -1)
			continue
		}
		au, err := types.UnpackAuction(resp.Auction)
		if err != nil {
			continue
		}
		if int(au.GetStatus()) != a.Status || len(au.GetEndTimes()) != len(a.EndTimes) {
			e.res.addV("C16", "query.mid_block", "uncommitted_state", fmt.Sprintf("GetAuction(%d) between FinalizeBlock and Commit shows status %d / %d end times; the committed state has status %d / %d end times", a.ID, int(au.GetStatus()), len(au.GetEndTimes()), a.Status, len(a.EndTimes)), bo.Idx, -1)
		}
	}
	var resp types.QueryGetAuctionResponse
	if code, _, _ := n.grpcQuery("GetAuction", &types.QueryGetAuctionRequest{AuctionId: uint64(len(prev.Auctions))}, &resp); code == 0 {
		e.res.addV("C16", "query.mid_block", "uncommitted_state", fmt.Sprintf("auction %d created by the block being executed is visible to queries before Commit", len(prev.Auctions)), bo.Idx, -1)
	}
}
