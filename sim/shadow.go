package sim

// C14: shadow replicas are fed the same decided-block log; every observable
// of every block must be identical on all of them.

import (
	"encoding/hex"
	"fmt"
)

func (e *execState) shadowBlock(bo *blockObs, txs [][]byte) {
	if len(e.shadows) == 0 || bo.Resp == nil {
		return
	}
	want := consensusBytes(bo.Resp)
	for _, sh := range e.shadows {
		sh.ResetRec()
		for i := range bo.Blk.Pre {
			_ = e.applyOpImpl(sh, i, &bo.Blk.Pre[i])
		}
		// shadows carry the same injected tx-level faults so that they stay comparable
		*sh.Rec.inj = *e.node.Rec.inj
		sh.Rec.inj.bankCount, sh.Rec.inj.hookCount = 0, 0
		if faultOf(bo.Blk, FDiscarded) != nil {
			e.discardedNoise(sh, bo.Blk, txs)
		}
		br := sh.Finalize(bo.Blk.TimeNs, txs, "")
		if br.Panic != "" || br.Err != nil {
			e.res.addV("C14", "replica.block_failed", "shadow", fmt.Sprintf("replica %s failed block %d that the primary executed: %v %s", sh.Name, bo.Idx, br.Err, br.Panic), bo.Idx, -1)
			return
		}
		got := consensusBytes(br.Resp)
		if string(got) != string(want) {
			e.res.addV("C14", "replica.response", "shadow", fmt.Sprintf("replica %s produced a different FinalizeBlock response for block %d (%s)", sh.Name, bo.Idx, firstEventDiff(bo.Resp, br.Resp)), bo.Idx, -1)
		}
		if ok, d := sameOrderedCalls(bo.AllCalls, br.Calls); !ok {
			e.res.addV("C14", "replica.transfers", "shadow", fmt.Sprintf("replica %s made bank transfers in a different order in block %d: %s", sh.Name, bo.Idx, d), bo.Idx, -1)
		}
		if err := sh.Commit(bo.Blk.TimeNs); err != nil {
			e.res.HarnessErr = "shadow commit: " + err.Error()
			return
		}
		h := hex.EncodeToString(sh.App.LastCommitID().Hash)
		if h != bo.AppHash {
			e.res.addV("C14", "replica.apphash", "shadow", fmt.Sprintf("replica %s app hash %s != primary %s after block %d", sh.Name, h, bo.AppHash, bo.Idx), bo.Idx, -1)
		}
	}
}
