package sim

// Instrumented hook listeners (C17) and the store-trace buffer (C18/C19).

import (
	"bytes"
	"context"
	"fmt"
	"sort"
	"strings"
	"sync"
	"time"

	"cosmossdk.io/collections"
	sdkmath "cosmossdk.io/math"
	cmtcrypto "github.com/cometbft/cometbft/crypto"
	cryptocodec "github.com/cosmos/cosmos-sdk/crypto/codec"
	cryptotypes "github.com/cosmos/cosmos-sdk/crypto/types"
	sdk "github.com/cosmos/cosmos-sdk/types"

	"github.com/tendermint/fundraising/app"
	"github.com/tendermint/fundraising/x/fundraising/keeper"
	"github.com/tendermint/fundraising/x/fundraising/types"
)

func cmtPubKey(pk cryptotypes.PubKey) (cmtcrypto.PubKey, error) {
	return cryptocodec.ToCmtPubKeyInterface(pk)
}

type traceBuf struct {
	mu  sync.Mutex
	buf bytes.Buffer
}

func (t *traceBuf) Write(p []byte) (int, error) {
	t.mu.Lock()
	defer t.mu.Unlock()
	return t.buf.Write(p)
}

func (t *traceBuf) Take() []byte {
	t.mu.Lock()
	defer t.mu.Unlock()
	b := append([]byte{}, t.buf.Bytes()...)
	t.buf.Reset()
	return b
}

type Listener struct {
	idx int
	rec *Recorder
	k   *keeper.Keeper
	app *app.App
}

var _ types.FundraisingHooks = (*Listener)(nil)

func vsString(vs []types.VestingSchedule) string {
	var sb strings.Builder
	for _, v := range vs {
		fmt.Fprintf(&sb, "(%d,%s)", nsOf(v.ReleaseTime), v.Weight.String())
	}
	return sb.String()
}

func mapString(m map[string]sdkmath.Int) string {
	ks := make([]string, 0, len(m))
	for k := range m {
		ks = append(ks, k)
	}
	sort.Strings(ks)
	var sb strings.Builder
	for _, k := range ks {
		if m[k].IsNil() || m[k].IsZero() {
			continue
		}
		fmt.Fprintf(&sb, "%s=%s;", k, m[k].String())
	}
	return sb.String()
}

func (l *Listener) call(ctx context.Context, method, args, pre string) error {
	return l.callRaw(ctx, method, args, pre, "")
}

func (l *Listener) callRaw(ctx context.Context, method, args, pre, raw string) error {
	phase, txh, bh, ok := l.rec.phase(ctx)
	if !ok {
		return nil
	}
	l.rec.mu.Lock()
	defer l.rec.mu.Unlock()
	hc := HookCall{Phase: phase, TxHash: txh, BlockHash: bh, Listener: l.idx, Method: method, Args: args, PreStored: pre, Raw: raw}
	in := l.rec.inj
	var err error
	if in != nil && in.HookMethod == method && in.HookListener == l.idx {
		if in.hookCount == in.HookNth {
			in.HookFired = true
			hc.Injected = true
			err = errInjected
		}
		in.hookCount++
	}
	l.rec.Hooks = append(l.rec.Hooks, hc)
	return err
}

func (l *Listener) BeforeFixedPriceAuctionCreated(ctx context.Context, auctioneer string, startPrice sdkmath.LegacyDec, sellingCoin sdk.Coin, payingCoinDenom string, vs []types.VestingSchedule, startTime, endTime time.Time) error {
	pre := l.newAuctionStored(ctx)
	return l.call(ctx, "BeforeFixedPriceAuctionCreated", fmt.Sprintf("%s|%s|%s|%s|%s|%d|%d", canonAddr(auctioneer), startPrice, sellingCoin, payingCoinDenom, vsString(vs), nsOf(startTime), nsOf(endTime)), pre)
}

func (l *Listener) newAuctionStored(ctx context.Context) string {
	next, err := l.k.AuctionSeq.Peek(ctx)
	if err != nil || next == 0 {
		return "err"
	}
	has, _ := l.k.Auction.Has(ctx, next-1)
	return fmt.Sprintf("stored=%v", has)
}

func (l *Listener) AfterFixedPriceAuctionCreated(ctx context.Context, auctionId uint64, auctioneer string, startPrice sdkmath.LegacyDec, sellingCoin sdk.Coin, payingCoinDenom string, vs []types.VestingSchedule, startTime, endTime time.Time) error {
	has, _ := l.k.Auction.Has(ctx, auctionId)
	return l.call(ctx, "AfterFixedPriceAuctionCreated", fmt.Sprintf("%d|%s|%s|%s|%s|%s|%d|%d", auctionId, canonAddr(auctioneer), startPrice, sellingCoin, payingCoinDenom, vsString(vs), nsOf(startTime), nsOf(endTime)), fmt.Sprintf("stored=%v", has))
}

func (l *Listener) BeforeBatchAuctionCreated(ctx context.Context, auctioneer string, startPrice, minBidPrice sdkmath.LegacyDec, sellingCoin sdk.Coin, payingCoinDenom string, vs []types.VestingSchedule, maxExtendedRound uint32, extendedRoundRate sdkmath.LegacyDec, startTime, endTime time.Time) error {
	pre := l.newAuctionStored(ctx)
	return l.call(ctx, "BeforeBatchAuctionCreated", fmt.Sprintf("%s|%s|%s|%s|%s|%s|%d|%s|%d|%d", canonAddr(auctioneer), startPrice, minBidPrice, sellingCoin, payingCoinDenom, vsString(vs), maxExtendedRound, extendedRoundRate, nsOf(startTime), nsOf(endTime)), pre)
}

func (l *Listener) AfterBatchAuctionCreated(ctx context.Context, auctionId uint64, auctioneer string, startPrice, minBidPrice sdkmath.LegacyDec, sellingCoin sdk.Coin, payingCoinDenom string, vs []types.VestingSchedule, maxExtendedRound uint32, extendedRoundRate sdkmath.LegacyDec, startTime, endTime time.Time) error {
	has, _ := l.k.Auction.Has(ctx, auctionId)
	return l.call(ctx, "AfterBatchAuctionCreated", fmt.Sprintf("%d|%s|%s|%s|%s|%s|%s|%d|%s|%d|%d", auctionId, canonAddr(auctioneer), startPrice, minBidPrice, sellingCoin, payingCoinDenom, vsString(vs), maxExtendedRound, extendedRoundRate, nsOf(startTime), nsOf(endTime)), fmt.Sprintf("stored=%v", has))
}

func (l *Listener) BeforeAuctionCanceled(ctx context.Context, auctionId uint64, auctioneer string) error {
	pre := "missing"
	if a, err := l.k.Auction.Get(ctx, auctionId); err == nil {
		pre = fmt.Sprintf("status=%d", int(a.GetStatus()))
	}
	return l.call(ctx, "BeforeAuctionCanceled", fmt.Sprintf("%d|%s", auctionId, canonAddr(auctioneer)), pre)
}

func (l *Listener) BeforeBidPlaced(ctx context.Context, auctionId, bidId uint64, bidder string, bidType types.BidType, price sdkmath.LegacyDec, coin sdk.Coin) error {
	has, _ := l.k.Bid.Has(ctx, collections.Join(auctionId, bidId))
	return l.callRaw(ctx, "BeforeBidPlaced", fmt.Sprintf("%d|%d|%s|%d|%s|%s", auctionId, bidId, canonAddr(bidder), int(bidType), price, coin), fmt.Sprintf("stored=%v", has), bidder)
}

func (l *Listener) BeforeBidModified(ctx context.Context, auctionId, bidId uint64, bidder string, bidType types.BidType, price sdkmath.LegacyDec, coin sdk.Coin) error {
	pre := "missing"
	if b, err := l.k.Bid.Get(ctx, collections.Join(auctionId, bidId)); err == nil {
		pre = fmt.Sprintf("stored=%v", b.Price.Equal(price) && b.Coin.IsEqual(coin))
	}
	return l.callRaw(ctx, "BeforeBidModified", fmt.Sprintf("%d|%d|%s|%d|%s|%s", auctionId, bidId, canonAddr(bidder), int(bidType), price, coin), pre, bidder)
}

func (l *Listener) BeforeAllowedBiddersAdded(ctx context.Context, allowedBidders []types.AllowedBidder) error {
	var sb strings.Builder
	for _, ab := range allowedBidders {
		fmt.Fprintf(&sb, "(%d,%s,%s)", ab.AuctionId, canonAddr(ab.Bidder), ab.MaxBidAmount)
	}
	return l.call(ctx, "BeforeAllowedBiddersAdded", sb.String(), "")
}

func (l *Listener) BeforeAllowedBidderUpdated(ctx context.Context, auctionId uint64, bidder sdk.AccAddress, maxBidAmount sdkmath.Int) error {
	pre := "missing"
	if ab, err := l.k.AllowedBidder.Get(ctx, collections.Join(auctionId, bidder)); err == nil {
		pre = "old=" + ab.MaxBidAmount.String()
	}
	return l.call(ctx, "BeforeAllowedBidderUpdated", fmt.Sprintf("%d|%s|%s", auctionId, bidder.String(), maxBidAmount), pre)
}

func (l *Listener) BeforeSellingCoinsAllocated(ctx context.Context, auctionId uint64, allocationMap, refundMap map[string]sdkmath.Int) error {
	pre := "missing"
	if a, err := l.k.Auction.Get(ctx, auctionId); err == nil {
		bal := l.app.BankKeeper.GetBalance(ctx, a.GetSellingReserveAddress(), a.GetSellingCoin().Denom)
		pre = fmt.Sprintf("status=%d,escrow=%s", int(a.GetStatus()), bal.Amount)
	}
	return l.call(ctx, "BeforeSellingCoinsAllocated", fmt.Sprintf("%d|%s|%s", auctionId, mapString(allocationMap), mapString(refundMap)), pre)
}
