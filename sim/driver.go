package sim

// Driver: seeded search over schedules across worker processes, shrinking,
// replay files, known findings, evidence.

import (
	"context"
	"encoding/json"
	"fmt"
	"os"
	"os/exec"
	"path/filepath"
	"sort"
	"strings"
	"sync"
	"time"
)

type CheckSpec struct {
	Property  string
	Level     string
	Profiles  []string // cycled through by run index
	Opts      ExecOpts
	QuickS    int
	ThoroughS int
	Custom    string // "" = schedule search; otherwise a custom engine name
}

var Checks = map[string]CheckSpec{
	"C01": {Property: "C01", Level: "exploration", Profiles: []string{"general", "book", "fixed", "clock", "general", "extreme"}, QuickS: 75, ThoroughS: 600},
	"C02": {Property: "C02", Level: "exploration", Profiles: []string{"general", "clock", "book", "fixed", "vesting", "extreme", "crowd"}, QuickS: 75, ThoroughS: 600},
	"C03": {Property: "C03", Level: "exploration", Profiles: []string{"book", "book", "rounds", "book", "crowd"}, QuickS: 75, ThoroughS: 600},
	"C04": {Property: "C04", Level: "exploration", Profiles: []string{"book", "fixed", "book", "general"}, QuickS: 75, ThoroughS: 600},
	"C05": {Property: "C05", Level: "exploration", Profiles: []string{"book", "fixed", "rounds", "general", "book", "fixed", "crowd"}, QuickS: 75, ThoroughS: 600},
	"C06": {Property: "C06", Level: "exploration", Profiles: []string{"fixed", "fixed", "general"}, Opts: ExecOpts{Lin: true}, QuickS: 75, ThoroughS: 600},
	"C07": {Property: "C07", Level: "fault_enumeration", Profiles: []string{"general", "book", "idle", "extreme", "clock", "book", "sprawl", "crowd"}, Opts: ExecOpts{BankFailEnum: true, MaxEnumBlocks: 5}, QuickS: 90, ThoroughS: 900},
	"C08": {Property: "C08", Level: "exploration", Profiles: []string{"clock", "general", "rounds", "clock", "general", "rounds", "sprawl"}, QuickS: 75, ThoroughS: 600},
	"C09": {Property: "C09", Level: "exploration", Profiles: []string{"vesting", "clock", "general"}, QuickS: 75, ThoroughS: 600},
	"C10": {Property: "C10", Level: "exploration", Profiles: []string{"general", "messages"}, QuickS: 60, ThoroughS: 300},
	"C11": {Property: "C11", Level: "exploration", Profiles: []string{"book", "rounds", "general"}, QuickS: 75, ThoroughS: 600},
	"C12": {Property: "C12", Level: "exploration", Profiles: []string{"clock", "general"}, QuickS: 75, ThoroughS: 600},
	"C13": {Property: "C13", Level: "exploration", Profiles: []string{"rounds", "rounds", "book"}, QuickS: 75, ThoroughS: 600},
	"C14": {Property: "C14", Level: "exploration", Profiles: []string{"replicas"}, QuickS: 75, ThoroughS: 900},
	"C15": {Property: "C15", Level: "exploration", Profiles: []string{"genesis", "genesis", "genesis", "town"}, QuickS: 75, ThoroughS: 600},
	"C16": {Property: "C16", Level: "exploration", Profiles: []string{"book", "rounds", "fixed", "vesting"}, Opts: ExecOpts{Queries: true, QueryEvery: 4}, QuickS: 75, ThoroughS: 600},
	"C17": {Property: "C17", Level: "fault_enumeration", Custom: "hooks", Profiles: []string{"hooks", "book", "clock", "fixed"}, QuickS: 60, ThoroughS: 600},
	"C20": {Property: "C20", Level: "exploration", Custom: "cli", QuickS: 75, ThoroughS: 600},
	"C18": {Property: "C18", Level: "exploration", Profiles: []string{"messages", "general", "messages", "extreme"}, Opts: ExecOpts{Trace: true}, QuickS: 75, ThoroughS: 600},
	"C19": {Property: "C19", Level: "exploration", Profiles: []string{"concurrent", "general", "vesting", "concurrent", "general", "vesting", "sprawl"}, Opts: ExecOpts{Trace: true, Project: true}, QuickS: 75, ThoroughS: 600},
}

type Finding struct {
	Property string `json:"property"`
	ID       string `json:"id"`
	Status   string `json:"status"` // open | fixed
	Commit   string `json:"commit,omitempty"`
	Rule     string `json:"rule"`
	Key      string `json:"key"`
	What     string `json:"what"`
}

type FindingsFile struct {
	Findings []Finding `json:"findings"`
	Fixed    []string  `json:"fixed_log"`
}

func LoadFindings(path string) (*FindingsFile, error) {
	b, err := os.ReadFile(path)
	if err != nil {
		if os.IsNotExist(err) {
			return &FindingsFile{}, nil
		}
		return nil, err
	}
	var f FindingsFile
	return &f, json.Unmarshal(b, &f)
}

func matchPat(pat, s string) bool {
	if pat == "*" || pat == s {
		return true
	}
	if strings.HasSuffix(pat, "*") {
		return strings.HasPrefix(s, strings.TrimSuffix(pat, "*"))
	}
	return false
}

func (f *FindingsFile) Match(v Violation) *Finding {
	for i := range f.Findings {
		k := &f.Findings[i]
		if k.Status == "open" && k.Property == v.Property && matchPat(k.Rule, v.Rule) && matchPat(k.Key, v.Key) {
			return k
		}
	}
	return nil
}

// WorkerOut is what one worker process reports.
type WorkerOut struct {
	Worker     int
	Runs       int
	NonTrivial int
	Sigs       map[string]int
	Stats      *Stats
	Found      []FoundViolation
	Samples    []json.RawMessage
	HarnessErr []string
	WallS      float64
	Seeds      []int64
	Custom     map[string]interface{} `json:",omitempty"`
}

type FoundViolation struct {
	V        Violation
	Seed     int64
	Profile  string
	Schedule *Schedule
}

func mergeStats(dst, src *Stats) {
	dst.Blocks += src.Blocks
	dst.Txs += src.Txs
	dst.TxOK += src.TxOK
	dst.TxRejected += src.TxRejected
	dst.TxAnte += src.TxAnte
	dst.PreOps += src.PreOps
	dst.PreOK += src.PreOK
	dst.SimDays += src.SimDays
	dst.QueryChecks += src.QueryChecks
	dst.TraceChecks += src.TraceChecks
	for k, v := range src.Faults {
		dst.Faults[k] += v
	}
	for k, v := range src.FaultsCfg {
		dst.FaultsCfg[k] += v
	}
	for k, v := range src.Probes {
		dst.Probes[k] += v
	}
	for k := range src.States {
		dst.States[k] = true
	}
	for k, v := range src.Relax {
		dst.Relax[k] += v
	}
	for k := range src.EnumPairs {
		dst.EnumPairs[k] = true
	}
	for k, v := range src.Porcupine {
		dst.Porcupine[k] += v
	}
	if src.Halted {
		dst.Probes["runs_halted"]++
	}
	if src.Diverged {
		dst.Probes["runs_diverged"]++
	}
}

func SeedFor(base int64, worker, run int) int64 {
	// splitmix-style mixing so that seeds of different workers never collide
	x := uint64(base)*0x9E3779B97F4A7C15 + uint64(worker)*0xBF58476D1CE4E5B9 + uint64(run)*0x94D049BB133111EB + 0x2545F4914F6CDD1D
	x ^= x >> 30
	x *= 0xBF58476D1CE4E5B9
	x ^= x >> 27
	x *= 0x94D049BB133111EB
	x ^= x >> 31
	return int64(x >> 1)
}

func abbreviateSchedule(s *Schedule) json.RawMessage {
	type ab struct {
		Seed    int64    `json:"seed"`
		Profile string   `json:"profile"`
		Actors  int      `json:"actors"`
		Blocks  int      `json:"blocks"`
		Ops     []string `json:"ops"`
	}
	a := ab{Seed: s.Seed, Profile: s.Cfg.Profile, Actors: s.Cfg.Actors, Blocks: len(s.Blocks)}
	for bi, b := range s.Blocks {
		if len(a.Ops) > 40 {
			a.Ops = append(a.Ops, "…")
			break
		}
		line := fmt.Sprintf("b%d t=+%dns", bi, b.TimeNs-s.GenesisNs)
		for _, o := range b.Pre {
			line += " pre:" + o.Kind
		}
		for _, t := range b.Txs {
			line += fmt.Sprintf(" tx:%s(a%d,%s)", t.Msg.Kind, t.Actor, t.Note)
		}
		for _, f := range b.Faults {
			line += " fault:" + f.Kind
		}
		a.Ops = append(a.Ops, line)
	}
	j, _ := json.Marshal(a)
	return j
}

// RunWorker: search loop of one worker process.
// Progress is written before every execution, so that the parent can tell which schedule a
// worker was executing if the process dies (a panic on the optimistic-execution goroutine of the
// application cannot be recovered in-process: it kills the node, and the worker with it).
type Progress struct {
	Run      int
	Seed     int64
	Profile  string
	Schedule *Schedule
}

func RunWorker(spec CheckSpec, base int64, worker int, budget time.Duration, maxRuns int, startRun int, progressPath string) *WorkerOut {
	out := &WorkerOut{Worker: worker, Sigs: map[string]int{}, Stats: newStats()}
	start := time.Now()
	seenV := map[string]bool{}
	var queue []*Schedule // variants waiting to be executed (fault enumeration engines)
	var queueProf []string
	for run := startRun; ; run++ {
		if time.Since(start) > budget || (maxRuns > 0 && run >= maxRuns) {
			break
		}
		seed := SeedFor(base, worker, run)
		prof := spec.Profiles[run%len(spec.Profiles)]
		var s *Schedule
		if len(queue) > 0 {
			s, prof = queue[0], queueProf[0]
			queue, queueProf = queue[1:], queueProf[1:]
			seed = s.Seed
		} else {
			s = Generate(seed, prof)
			if spec.Custom == "hooks" {
				s.Cfg.Listeners = 1 + run%3
				s.Cfg.Replicas = 0
			}
		}
		if progressPath != "" {
			if b, err := json.Marshal(Progress{Run: run, Seed: seed, Profile: prof, Schedule: s}); err == nil {
				_ = os.WriteFile(progressPath, b, 0o644)
			}
		}
		res := Execute(s, spec.Opts)
		if spec.Custom == "hooks" && res.HarnessErr == "" && !hasHookFault(s) {
			// enumerate: every hook method this history triggers x every listener position
			done := map[string]bool{}
			for _, hs := range res.HookSites {
				if done[hs.Method] {
					continue
				}
				done[hs.Method] = true
				for j := 0; j < s.Cfg.Listeners; j++ {
					v := cloneSchedule(s)
					v.Blocks[hs.Block].Faults = append(v.Blocks[hs.Block].Faults, Fault{Kind: FHookFail, Method: hs.Method, Listener: j})
					queue = append(queue, v)
					queueProf = append(queueProf, prof)
				}
			}
		}
		out.Runs++
		if len(out.Seeds) < 50 {
			out.Seeds = append(out.Seeds, seed)
		}
		if res.HarnessErr != "" {
			if len(out.HarnessErr) < 5 {
				out.HarnessErr = append(out.HarnessErr, fmt.Sprintf("seed %d profile %s: %s", seed, prof, res.HarnessErr))
			}
			continue
		}
		mergeStats(out.Stats, res.Stats)
		if res.Stats.NonTrivial {
			out.NonTrivial++
			out.Sigs[res.Stats.Sig]++
		}
		if len(out.Samples) < 2 && res.Stats.NonTrivial {
			out.Samples = append(out.Samples, abbreviateSchedule(s))
		}
		for _, v := range res.Violations {
			if v.Property != spec.Property {
				continue
			}
			k := v.Rule + "|" + v.Key
			if seenV[k] {
				continue
			}
			seenV[k] = true
			out.Found = append(out.Found, FoundViolation{V: v, Seed: seed, Profile: prof, Schedule: s})
		}
	}
	out.WallS = time.Since(start).Seconds()
	return out
}

// ---------------------------------------------------------------- replay files

type ReplayFile struct {
	Property  string    `json:"property"`
	Rule      string    `json:"rule"`
	Key       string    `json:"key"`
	Detail    string    `json:"detail"`
	Seed      int64     `json:"seed"`
	Profile   string    `json:"profile"`
	TraceHash string    `json:"trace_hash"`
	Opts      ExecOpts  `json:"opts"`
	Shrunk    string    `json:"shrunk"`
	Schedule  *Schedule `json:"schedule"`
}

func sameClass(v Violation, prop, rule, key string) bool {
	return v.Property == prop && v.Rule == rule && v.Key == key
}

func hasClass(res *RunResult, prop, rule, key string) *Violation {
	for i := range res.Violations {
		if sameClass(res.Violations[i], prop, rule, key) {
			return &res.Violations[i]
		}
	}
	return nil
}

// Shrink: delta-debugging over blocks, txs, keeper ops and faults while the
// same violation class (property, rule, key) persists.
// ShrinkTrying, when set, is called before every candidate execution with the best schedule found so far.
var ShrinkTrying func(best *Schedule, tries int)

// ShrinkJob / ShrinkOut: minimisation runs in a child process (verifsim shrink), because a candidate
// schedule may make the application panic on BaseApp's optimistic-execution goroutine, which kills the
// process; the parent keeps whatever the child had reached.
type ShrinkJob struct {
	Schedule            *Schedule
	Opts                ExecOpts
	Property, Rule, Key string
	BudgetMs            int64
}

type ShrinkOut struct {
	Schedule  *Schedule
	Tries     int
	TraceHash string
	Detail    string
	Done      bool
}

func RunShrinkJob(in, out string) error {
	b, err := os.ReadFile(in)
	if err != nil {
		return err
	}
	var j ShrinkJob
	if err := json.Unmarshal(b, &j); err != nil {
		return err
	}
	write := func(o ShrinkOut) {
		if bb, err := json.Marshal(o); err == nil {
			tmp := out + ".tmp"
			if os.WriteFile(tmp, bb, 0o644) == nil {
				_ = os.Rename(tmp, out)
			}
		}
	}
	ShrinkTrying = func(best *Schedule, tries int) { write(ShrinkOut{Schedule: best, Tries: tries}) }
	sh, tries := Shrink(j.Schedule, j.Opts, j.Property, j.Rule, j.Key, time.Duration(j.BudgetMs)*time.Millisecond)
	write(ShrinkOut{Schedule: sh, Tries: tries})
	ro := j.Opts
	ro.EnumAll = ro.BankFailEnum
	r := Execute(sh, ro)
	o := ShrinkOut{Schedule: sh, Tries: tries, TraceHash: r.TraceHash, Done: true}
	if v := hasClass(r, j.Property, j.Rule, j.Key); v != nil {
		o.Detail = v.Detail
	}
	write(o)
	return nil
}

// shrinkInChild minimises in a child process; if the child dies, the best schedule it had reached is used.
func shrinkInChild(f FoundViolation, opts ExecOpts, budget time.Duration) (sh *Schedule, tries int, traceHash, detail, note string) {
	sh, detail = f.Schedule, f.V.Detail
	self, err := os.Executable()
	if err != nil {
		return sh, 0, "", detail, "not minimised: " + err.Error()
	}
	dir, err := os.MkdirTemp("", "verif-shrink-")
	if err != nil {
		return sh, 0, "", detail, "not minimised: " + err.Error()
	}
	defer os.RemoveAll(dir)
	in, out := filepath.Join(dir, "job.json"), filepath.Join(dir, "out.json")
	jb, _ := json.Marshal(ShrinkJob{Schedule: f.Schedule, Opts: opts, Property: f.V.Property, Rule: f.V.Rule, Key: f.V.Key, BudgetMs: budget.Milliseconds()})
	if err := os.WriteFile(in, jb, 0o644); err != nil {
		return sh, 0, "", detail, "not minimised: " + err.Error()
	}
	ctx, cancel := context.WithTimeout(context.Background(), budget+90*time.Second)
	defer cancel()
	cmd := exec.CommandContext(ctx, self, "shrink", "--in", in, "--out", out)
	cmd.Stdout, cmd.Stderr = nil, nil
	runErr := cmd.Run()
	var o ShrinkOut
	if b, err := os.ReadFile(out); err == nil && json.Unmarshal(b, &o) == nil && o.Schedule != nil {
		sh, tries, traceHash = o.Schedule, o.Tries, o.TraceHash
		if o.Detail != "" {
			detail = o.Detail
		}
		if !o.Done {
			note = fmt.Sprintf("minimisation stopped early (a candidate schedule killed the minimising process: %v)", runErr)
		}
		return
	}
	return sh, 0, "", detail, fmt.Sprintf("not minimised (the minimising process failed: %v)", runErr)
}

func Shrink(s *Schedule, opts ExecOpts, prop, rule, key string, budget time.Duration) (*Schedule, int) {
	start := time.Now()
	if opts.BankFailEnum {
		opts.EnumAll = true
	}
	cur := cloneSchedule(s)
	tries := 0
	still := func(c *Schedule) bool {
		tries++
		if ShrinkTrying != nil {
			ShrinkTrying(cur, tries) // persist the best schedule so far: the candidate may kill this process
		}
		r := Execute(c, opts)
		return r.HarnessErr == "" && hasClass(r, prop, rule, key) != nil
	}
	// truncate after the violating block first
	if r := Execute(cur, opts); r.HarnessErr == "" {
		if v := hasClass(r, prop, rule, key); v != nil && v.Block+1 < len(cur.Blocks) {
			c := cloneSchedule(cur)
			c.Blocks = c.Blocks[:v.Block+1]
			if still(c) {
				cur = c
			}
		}
	}
	changed := true
	for changed && time.Since(start) < budget {
		changed = false
		// drop chunks of blocks
		for size := len(cur.Blocks) / 2; size >= 1; size /= 2 {
			for i := 0; i+size <= len(cur.Blocks) && time.Since(start) < budget; {
				c := cloneSchedule(cur)
				c.Blocks = append(c.Blocks[:i], c.Blocks[i+size:]...)
				if len(c.Blocks) > 0 && still(c) {
					cur = c
					changed = true
				} else {
					i += size
				}
			}
		}
		// drop faults, txs, pre-ops
		for bi := 0; bi < len(cur.Blocks) && time.Since(start) < budget; bi++ {
			for fi := 0; fi < len(cur.Blocks[bi].Faults); {
				c := cloneSchedule(cur)
				c.Blocks[bi].Faults = append(c.Blocks[bi].Faults[:fi], c.Blocks[bi].Faults[fi+1:]...)
				if still(c) {
					cur = c
					changed = true
				} else {
					fi++
				}
			}
			for ti := 0; ti < len(cur.Blocks[bi].Txs); {
				c := cloneSchedule(cur)
				c.Blocks[bi].Txs = append(c.Blocks[bi].Txs[:ti], c.Blocks[bi].Txs[ti+1:]...)
				// fault tx indexes shift
				for k := range c.Blocks[bi].Faults {
					if c.Blocks[bi].Faults[k].Tx > ti {
						c.Blocks[bi].Faults[k].Tx--
					}
				}
				if still(c) {
					cur = c
					changed = true
				} else {
					ti++
				}
			}
			for pi := 0; pi < len(cur.Blocks[bi].Pre); {
				c := cloneSchedule(cur)
				c.Blocks[bi].Pre = append(c.Blocks[bi].Pre[:pi], c.Blocks[bi].Pre[pi+1:]...)
				if still(c) {
					cur = c
					changed = true
				} else {
					pi++
				}
			}
			// simplify: drop allow-list entries, dup / seq flags
			for pi := range cur.Blocks[bi].Pre {
				for ei := 0; ei < len(cur.Blocks[bi].Pre[pi].Entries) && len(cur.Blocks[bi].Pre[pi].Entries) > 1; {
					c := cloneSchedule(cur)
					es := c.Blocks[bi].Pre[pi].Entries
					c.Blocks[bi].Pre[pi].Entries = append(es[:ei], es[ei+1:]...)
					if still(c) {
						cur = c
						changed = true
					} else {
						ei++
					}
				}
			}
		}
		// fewer replicas / listeners
		if cur.Cfg.Replicas > 1 {
			c := cloneSchedule(cur)
			c.Cfg.Replicas--
			if still(c) {
				cur = c
				changed = true
			}
		}
	}
	return cur, tries
}

func cloneSchedule(s *Schedule) *Schedule {
	b, _ := json.Marshal(s)
	var c Schedule
	_ = json.Unmarshal(b, &c)
	return &c
}

func WriteReplay(dir string, rf *ReplayFile) (string, error) {
	_ = os.MkdirAll(dir, 0o755)
	name := fmt.Sprintf("%s_%s_%s_%d.json", rf.Property, sanitize(rf.Rule), sanitize(rf.Key), rf.Seed)
	p := filepath.Join(dir, name)
	b, _ := json.MarshalIndent(rf, "", " ")
	return p, os.WriteFile(p, b, 0o644)
}

func sanitize(s string) string {
	out := []rune{}
	for _, r := range s {
		if (r >= 'a' && r <= 'z') || (r >= 'A' && r <= 'Z') || (r >= '0' && r <= '9') || r == '-' || r == '_' || r == '.' {
			out = append(out, r)
		} else {
			out = append(out, '_')
		}
	}
	if len(out) > 40 {
		out = out[:40]
	}
	return string(out)
}

// Replay executes a replay file; returns whether the recorded violation class reproduced.
func Replay(path string) (bool, *RunResult, *ReplayFile, error) {
	b, err := os.ReadFile(path)
	if err != nil {
		return false, nil, nil, err
	}
	var rf ReplayFile
	if err := json.Unmarshal(b, &rf); err != nil {
		return false, nil, nil, err
	}
	opts := rf.Opts
	if opts.BankFailEnum {
		opts.EnumAll = true
	}
	if rf.Property == "C14" && rf.Schedule.Cfg.Replicas < 16 {
		// map iteration order cannot be seeded: raise the number of samples so that the replay reproduces
		opts.ReplayK = 16
	}
	res := Execute(rf.Schedule, opts)
	return hasClass(res, rf.Property, rf.Rule, rf.Key) != nil, res, &rf, nil
}

// ---------------------------------------------------------------- check orchestration

type CheckResult struct {
	Exit int
}

func envInt(name string, def int64) int64 {
	if v := os.Getenv(name); v != "" {
		var x int64
		if _, err := fmt.Sscan(v, &x); err == nil {
			return x
		}
	}
	return def
}

// SpecFor: the check specification adjusted for the tier.
func SpecFor(prop, tier string) CheckSpec {
	spec := Checks[prop]
	if v := os.Getenv("VERIF_PROFILES"); v != "" && len(spec.Profiles) > 0 {
		// exploratory override (not used by the registered commands): search with these generator profiles only
		spec.Profiles = strings.Split(v, ",")
	}
	if tier == "thorough" && spec.Opts.BankFailEnum {
		spec.Opts.MaxEnumBlocks = 40
	}
	if tier == "thorough" && len(spec.Profiles) > 0 && spec.Custom == "" {
		spec.Profiles = append(append([]string{}, spec.Profiles...), "deep")
	}
	if tier == "thorough" && prop == "C14" {
		spec.Opts.ReplayK = 4 // four shadow replicas instead of two
	}
	return spec
}

// RunCheck fans out workers (this binary, "worker" sub-command), merges their
// reports, shrinks and writes replay files, prints VIOLATION / KNOWN-FINDING
// lines, writes evidence. Returns the process exit code.
func RunCheck(self string, prop, tier, verifDir string) int {
	selfTestViolation := false
	spec, ok := Checks[prop]
	if !ok {
		fmt.Printf("unknown property %s\n", prop)
		return 2
	}
	seed := envInt("VERIF_SEED", 1)
	budgetS := int64(spec.QuickS)
	if tier == "thorough" {
		budgetS = int64(spec.ThoroughS)
	}
	budgetS = envInt("VERIF_BUDGET_S", budgetS)
	workers := int(envInt("VERIF_WORKERS", 16))
	start := time.Now()
	fmt.Printf("check %s tier=%s VERIF_SEED=%d workers=%d budget=%ds\n", prop, tier, seed, workers, budgetS)
	spec = SpecFor(prop, tier)
	if spec.Custom != "" && spec.Custom != "hooks" {
		return runCustom(spec, tier, seed, verifDir, start)
	}
	nst := 2
	stProcs := []int{1, 16}
	if tier == "thorough" {
		nst = 12
		stProcs = []int{1, 4, 16}
	}
	stProfiles := spec.Profiles
	if len(stProfiles) == 0 {
		stProfiles = []string{"general"}
	}
	st := SelfTest(self, seed, nst, stProfiles, stProcs, 1, prop)
	selfTestExtra := map[string]interface{}{"determinism_selftest": st}
	if st.Mismatches > 0 {
		fmt.Printf("NONDETERMINISM: %d of %d cross-process comparisons differ: %v\n", st.Mismatches, st.Compared, st.Examples)
		if prop == "C14" && st.FirstSeed != 0 {
			s := Generate(st.FirstSeed, st.FirstProf)
			rf := &ReplayFile{Property: "C14", Rule: "crossprocess.trace", Key: "selftest", Detail: "the same schedule executed in two OS processes produced different traces: " + strings.Join(st.Examples, "; "), Seed: st.FirstSeed, Profile: st.FirstProf, Opts: spec.Opts, Schedule: s}
			path, _ := WriteReplay(filepath.Join(verifDir, "replays"), rf)
			fmt.Printf("VIOLATION property=C14 replay=%s\n", path)
			selfTestViolation = true
		}
	}
	tmp, err := os.MkdirTemp("", "verif-"+prop+"-")
	if err != nil {
		fmt.Println("tmpdir:", err)
		return 2
	}
	defer os.RemoveAll(tmp)
	type crash struct {
		Seed    int64
		Profile string
		Sched   *Schedule
		Panic   string
	}
	var crashes []crash
	total := &WorkerOut{Sigs: map[string]int{}, Stats: newStats()}
	failed := 0
	merge := func(path string) bool {
		b, err := os.ReadFile(path)
		if err != nil {
			return false
		}
		var wo WorkerOut
		if err := json.Unmarshal(b, &wo); err != nil {
			return false
		}
		total.Runs += wo.Runs
		total.NonTrivial += wo.NonTrivial
		for k, v := range wo.Sigs {
			total.Sigs[k] += v
		}
		mergeStats(total.Stats, wo.Stats)
		total.Found = append(total.Found, wo.Found...)
		if len(total.Samples) < 3 {
			total.Samples = append(total.Samples, wo.Samples...)
		}
		total.HarnessErr = append(total.HarnessErr, wo.HarnessErr...)
		total.Seeds = append(total.Seeds, wo.Seeds...)
		return true
	}
	deadline := time.Now().Add(time.Duration(budgetS) * time.Second)
	results := make(chan []crash, workers)
	failures := make(chan int, workers)
	var mergeMu sync.Mutex
	for w := 0; w < workers; w++ {
		go func(w int) {
			var mine []crash
			startRun := 0
			bad := 0
			for attempt := 0; attempt < 6; attempt++ {
				remain := int(time.Until(deadline).Seconds())
				if attempt > 0 && remain < 3 {
					break
				}
				if remain < 1 {
					remain = 1
				}
				out := filepath.Join(tmp, fmt.Sprintf("w%d-%d.json", w, attempt))
				prog := filepath.Join(tmp, fmt.Sprintf("w%d.progress", w))
				errPath := filepath.Join(tmp, fmt.Sprintf("w%d-%d.stderr", w, attempt))
				ef, _ := os.Create(errPath)
				cmd := exec.Command(self, "worker", "--prop", prop, "--seed", fmt.Sprint(seed), "--worker", fmt.Sprint(w), "--budget-s", fmt.Sprint(remain), "--tier", tier, "--out", out, "--start-run", fmt.Sprint(startRun), "--progress", prog)
				cmd.Env = append(os.Environ(), "GOMAXPROCS=2")
				cmd.Stderr = ef
				cmd.Stdout = ef
				err := cmd.Run()
				ef.Close()
				if err == nil {
					mergeMu.Lock()
					ok := merge(out)
					mergeMu.Unlock()
					if !ok {
						bad++
					}
					break
				}
				// the worker process died: which schedule was it executing?
				var pr Progress
				pb, perr := os.ReadFile(prog)
				if perr != nil || json.Unmarshal(pb, &pr) != nil || pr.Schedule == nil {
					bad++
					break
				}
				eb, _ := os.ReadFile(errPath)
				mine = append(mine, crash{Seed: pr.Seed, Profile: pr.Profile, Sched: pr.Schedule, Panic: panicHead(string(eb))})
				startRun = pr.Run + 1
			}
			failures <- bad
			results <- mine
		}(w)
	}
	for w := 0; w < workers; w++ {
		failed += <-failures
		crashes = append(crashes, (<-results)...)
	}
	for _, c := range crashes {
		total.Stats.Probes["node_process_crashes"]++
		msg := fmt.Sprintf("the node process died while executing seed %d (profile %s): %s", c.Seed, c.Profile, c.Panic)
		if prop == "C07" {
			total.Found = append(total.Found, FoundViolation{V: Violation{Property: "C07", Rule: "process.crash", Key: classifyHalt(c.Panic), Detail: msg, Block: len(c.Sched.Blocks) - 1, Tx: -1}, Seed: c.Seed, Profile: c.Profile, Schedule: c.Sched})
		} else {
			fmt.Printf("NOTE: %s - a crash of the node is C07's subject; this worker continued with its next seed\n", msg)
		}
	}
	if failed > 0 {
		fmt.Printf("HARNESS: %d worker(s) failed\n", failed)
		return 2
	}
	if len(total.HarnessErr) > 0 {
		for _, h := range total.HarnessErr {
			fmt.Println("HARNESS:", h)
		}
		fmt.Println("harness errors: the simulator itself failed; this is not a verdict on the property")
		return 2
	}
	if prop == "C10" {
		probe, v := buildProbeC10()
		selfTestExtra["default_binary_build_probe"] = probe
		if v != nil {
			total.Found = append(total.Found, *v)
		}
	}
	exit := reportAndEvidence(spec, tier, seed, verifDir, total, start, selfTestExtra)
	if selfTestViolation {
		exit = 1
	}
	return exit
}

func reportAndEvidence(spec CheckSpec, tier string, seed int64, verifDir string, total *WorkerOut, start time.Time, extra map[string]interface{}) int {
	kf, err := LoadFindings(filepath.Join(verifDir, "known_findings.json"))
	if err != nil {
		fmt.Println("known_findings.json:", err)
		return 2
	}
	// one representative per class, smallest schedule first
	classes := map[string]FoundViolation{}
	for _, f := range total.Found {
		k := f.V.Rule + "|" + f.V.Key
		if old, ok := classes[k]; !ok || (f.Schedule != nil && old.Schedule != nil && len(f.Schedule.Blocks) < len(old.Schedule.Blocks)) {
			classes[k] = f
		}
	}
	keys := make([]string, 0, len(classes))
	for k := range classes {
		keys = append(keys, k)
	}
	sort.Strings(keys)
	exit := 0
	nViol := 0
	knownPrinted := map[string]bool{}
	for _, k := range keys {
		f := classes[k]
		if kn := kf.Match(f.V); kn != nil {
			if !knownPrinted[kn.ID] {
				knownPrinted[kn.ID] = true
				fmt.Printf("KNOWN-FINDING: property=%s %s [%s] (e.g. seed %d: %s)\n", spec.Property, kn.What, kn.ID, f.Seed, abbreviate(f.V.Detail))
			}
			continue
		}
		nViol++
		path := ""
		if f.Schedule == nil {
			path = writeCmdReplay(verifDir, spec.Property, cliViolation{Rule: f.V.Rule, Key: f.V.Key, Detail: f.V.Detail, Cmd: []string{"tx", "fundraising", "--help"}}, "go build ./cmd/fundraisingd (no tags, no ldflags)", seed)
			fmt.Printf("violation detail: %s\n", f.V.Detail)
		}
		if f.Schedule != nil {
			budget := 25 * time.Second
			if nViol > 3 {
				budget = 0 // only the first classes are minimised; the rest are written as found
			}
			var sh *Schedule
			var tries int
			var r *RunResult
			shrinkNote := ""
			detail := f.V.Detail
			if f.V.Rule == "process.crash" {
				// executing it in this process would kill the check itself; the replay command runs it in a child process
				sh, r = f.Schedule, &RunResult{}
			} else {
				var th, note string
				sh, tries, th, detail, note = shrinkInChild(f, spec.Opts, budget)
				r = &RunResult{TraceHash: th}
				if note != "" {
					shrinkNote = "; " + note
				}
			}
			rf := &ReplayFile{Property: f.V.Property, Rule: f.V.Rule, Key: f.V.Key, Detail: detail, Seed: f.Seed, Profile: f.Profile,
				TraceHash: r.TraceHash, Opts: spec.Opts, Shrunk: fmt.Sprintf("%d -> %d blocks in %d executions%s", len(f.Schedule.Blocks), len(sh.Blocks), tries, shrinkNote), Schedule: sh}
			path, _ = WriteReplay(filepath.Join(verifDir, "replays"), rf)
			fmt.Printf("violation detail: %s\n", detail)
		}
		fmt.Printf("VIOLATION property=%s replay=%s\n", spec.Property, path)
		exit = 1
	}
	wall := time.Since(start).Seconds()
	writeEvidence(spec, tier, seed, verifDir, total, wall, nViol, len(knownPrinted), extra)
	st := total.Stats
	fmt.Printf("%s: runs=%d nontrivial=%d distinct_signatures=%d blocks=%d txs=%d (ok=%d rejected=%d ante=%d) states=%d sim_time=%.1f days wall=%.1fs violations=%d known=%d\n",
		spec.Property, total.Runs, total.NonTrivial, len(total.Sigs), st.Blocks, st.Txs, st.TxOK, st.TxRejected, st.TxAnte, len(st.States), st.SimDays, wall, nViol, len(knownPrinted))
	return exit
}

func writeEvidence(spec CheckSpec, tier string, seed int64, verifDir string, total *WorkerOut, wall float64, nViol, nKnown int, extra map[string]interface{}) {
	st := total.Stats
	distinct := len(total.Sigs)
	rule := "one evaluation = one generated schedule executed on the real application in lock-step with the reference model; a run is non-trivial when at least one auction received a bid and reached settlement, or was cancelled; distinct = distinct abstract run signatures (sorted multiset over auctions of type, final status, bid-count bucket, number of end times, instalment bucket, plus the set of fault kinds that fired)"
	evals := total.Runs
	if spec.Level == "fault_enumeration" {
		distinct = len(st.EnumPairs)
		if spec.Custom == "hooks" {
			rule = "fault enumeration: every generated history is executed once with L = 1..3 recording listeners; then, for every hook method it triggers and every listener position j < L, it is re-executed with listener j failing at the first call of that method; distinct = distinct (hook method, L, failing position, triggering operation) tuples in which the injected failure actually fired; evaluations = executions"
		} else {
			rule = "fault enumeration: for every block of every generated history in which block processing makes n >= 1 bank/pool calls, a failure is injected into each call k < n on a scratch replica restored to the pre-block state; distinct = distinct (operation at the failing call, position of the affected auction among those processed, k) triples; evaluations = injected executions + schedules"
		}
		evals = total.Runs + st.Probes["enum_injections"]
	}
	samples := []interface{}{}
	for _, s := range total.Samples {
		samples = append(samples, s)
	}
	if len(samples) == 0 {
		samples = append(samples, "no non-trivial sample in this run")
	}
	perHour := 0.0
	if wall > 0 {
		perHour = float64(total.Runs) / wall * 3600
	}
	cov := map[string]interface{}{
		"evaluations":              evals,
		"distinct_nontrivial":      distinct,
		"rule":                     rule,
		"samples":                  samples,
		"schedules_executed":       total.Runs,
		"nontrivial_runs":          total.NonTrivial,
		"runs_per_hour":            int(perHour),
		"blocks":                   st.Blocks,
		"txs":                      map[string]int{"total": st.Txs, "accepted": st.TxOK, "rejected_by_message": st.TxRejected, "rejected_by_ante": st.TxAnte},
		"keeper_ops":               map[string]int{"total": st.PreOps, "accepted": st.PreOK},
		"simulated_days":           st.SimDays,
		"faults_fired":             st.Faults,
		"faults_configured":        st.FaultsCfg,
		"probes":                   st.Probes,
		"distinct_abstract_states": len(st.States),
		"relaxations_used":         st.Relax,
		"seeds_first":              firstN(total.Seeds, 8),
		"known_findings_hit":       nKnown,
		"components_real":          "x/fundraising (keeper, msg server, query server, genesis, module), BaseApp incl. ante chain, signature verification, tx decoding, msg routing, ValidateBasic, cache-wrapped tx execution, optimistic execution, x/auth, x/bank, x/distribution, x/mint, x/staking, IAVL + rootmulti store over MemDB",
		"components_stub":          "CometBFT (consensus, mempool, p2p, RPC, WAL) -> seeded scheduler; disk -> MemDB snapshots; wall clock -> never read; block time -> schedule",
	}
	if len(st.Porcupine) > 0 {
		cov["porcupine"] = st.Porcupine
	}
	if st.QueryChecks > 0 {
		cov["query_checks"] = st.QueryChecks
	}
	if st.TraceChecks > 0 {
		cov["write_set_checks"] = st.TraceChecks
	}
	for k, v := range extra {
		cov[k] = v
	}
	ev := map[string]interface{}{
		"property_id": spec.Property,
		"tier":        tier,
		"seed":        seed,
		"level":       spec.Level,
		"coverage":    cov,
		"assumptions": []string{
			"the reference model (sim/model.go, math/big) is the trusted statement of the specified behaviour",
			"store-level crash atomicity (IAVL/rootmulti) is trusted; crashes are injected at ABCI boundaries",
			"CometBFT is replaced by the scheduler; every replica is fed the same decided block log",
		},
		"wall_s":     wall,
		"violations": nViol,
	}
	b, _ := json.MarshalIndent(ev, "", " ")
	_ = os.MkdirAll(filepath.Join(verifDir, "evidence"), 0o755)
	_ = os.WriteFile(filepath.Join(verifDir, "evidence", spec.Property+".json"), b, 0o644)
}

func firstN(xs []int64, n int) []int64 {
	if len(xs) > n {
		return xs[:n]
	}
	return xs
}

func runCustom(spec CheckSpec, tier string, seed int64, verifDir string, start time.Time) int {
	switch spec.Custom {
	case "cli":
		return runCLICheck(spec, tier, seed, verifDir, start)
	}
	fmt.Println("unknown custom engine:", spec.Custom)
	return 2
}

func hasHookFault(s *Schedule) bool {
	for _, b := range s.Blocks {
		for _, f := range b.Faults {
			if f.Kind == FHookFail {
				return true
			}
		}
	}
	return false
}

// ---------------------------------------------------------------- determinism self-test

type SelfTestResult struct {
	Seeds      int      `json:"seeds"`
	Executions int      `json:"executions"`
	Compared   int      `json:"pairs_compared"`
	Mismatches int      `json:"mismatches"`
	GoMaxProcs []int    `json:"gomaxprocs"`
	Examples   []string `json:"mismatch_examples,omitempty"`
	FirstSeed  int64    `json:"first_mismatch_seed,omitempty"`
	FirstProf  string   `json:"first_mismatch_profile,omitempty"`
}

// SelfTest executes the same seeds in separate OS processes at several
// GOMAXPROCS values, `reps` times each, and compares the trace hashes.
func SelfTest(self string, base int64, nSeeds int, profiles []string, procs []int, reps int, prop string) *SelfTestResult {
	r := &SelfTestResult{Seeds: nSeeds, GoMaxProcs: procs}
	type job struct {
		seed int64
		prof string
		gmp  int
		out  string
		err  error
	}
	var jobs []*job
	for i := 0; i < nSeeds; i++ {
		seed := SeedFor(base, 4242, i)
		prof := profiles[i%len(profiles)]
		for _, g := range procs {
			for k := 0; k < reps; k++ {
				jobs = append(jobs, &job{seed: seed, prof: prof, gmp: g})
			}
		}
	}
	sem := make(chan struct{}, 16)
	done := make(chan struct{})
	for _, j := range jobs {
		j := j
		go func() {
			sem <- struct{}{}
			defer func() { <-sem; done <- struct{}{} }()
			cmd := exec.Command(self, "tracehash", "--seed", fmt.Sprint(j.seed), "--profile", j.prof, "--prop", prop)
			cmd.Env = append(os.Environ(), fmt.Sprintf("GOMAXPROCS=%d", j.gmp))
			b, err := cmd.Output()
			j.err = err
			lines := strings.Split(strings.TrimSpace(string(b)), "\n")
			j.out = lines[len(lines)-1]
		}()
	}
	for range jobs {
		<-done
	}
	first := map[string]string{}
	for _, j := range jobs {
		r.Executions++
		k := fmt.Sprintf("%d/%s", j.seed, j.prof)
		if j.err != nil {
			r.Mismatches++
			r.Examples = append(r.Examples, fmt.Sprintf("seed %d profile %s GOMAXPROCS=%d: process failed: %v", j.seed, j.prof, j.gmp, j.err))
			continue
		}
		if f, ok := first[k]; !ok {
			first[k] = j.out
		} else {
			r.Compared++
			if f != j.out {
				r.Mismatches++
				if r.FirstSeed == 0 {
					r.FirstSeed, r.FirstProf = j.seed, j.prof
				}
				if len(r.Examples) < 3 {
					r.Examples = append(r.Examples, fmt.Sprintf("seed %d profile %s GOMAXPROCS=%d: %s vs %s", j.seed, j.prof, j.gmp, j.out, f))
				}
			}
		}
	}
	return r
}

// buildProbeC10 (not simulation: a deterministic build + process start): the
// default build of cmd/fundraisingd must not register the explicit
// add-allowed-bidder command (the switch is off); the documented testing link
// flag must turn it on (positive control).
func buildProbeC10() (map[string]interface{}, *FoundViolation) {
	out := map[string]interface{}{}
	scratch, err := os.MkdirTemp("/var/tmp", "verif-scratch.")
	if err != nil {
		out["error"] = err.Error()
		return out, nil
	}
	defer os.RemoveAll(scratch)
	short := func(bin string) string {
		c := &cliEnv{bin: bin, home: filepath.Join(scratch, "home"), scratch: scratch}
		r := c.run(60*time.Second, "tx", "fundraising", "--help")
		for _, ln := range strings.Split(r.Out, "\n") {
			if strings.Contains(ln, "add-allowed-bidder") {
				return strings.TrimSpace(ln)
			}
		}
		if r.Exit != 0 || r.Panic {
			return "binary does not run"
		}
		return "absent"
	}
	def := filepath.Join(scratch, "fundraisingd")
	if err := buildDefaultBinary(repoDir(), def, ""); err != nil {
		out["error"] = "build: " + err.Error()
		return out, nil
	}
	dShort := short(def)
	out["default_build"] = dShort
	ctl := filepath.Join(scratch, "fundraisingd-testing")
	if err := buildDefaultBinary(repoDir(), ctl, "-X github.com/tendermint/fundraising/x/fundraising/keeper.enableAddAllowedBidder=true"); err == nil {
		out["testing_link_flag_build"] = short(ctl)
	} else {
		out["testing_link_flag_build"] = "build failed"
	}
	if strings.Contains(dShort, "Send a AddAllowedBidder tx") {
		return out, &FoundViolation{V: Violation{Property: "C10", Rule: "default_build.switch_on", Key: "binary", Detail: "the default build of cmd/fundraisingd registers the testing-only add-allowed-bidder command: keeper.EnableAddAllowedBidder is true without the testing link flag", Block: 0, Tx: -1}}
	}
	return out, nil
}

func panicHead(stderr string) string {
	lines := strings.Split(stderr, "\n")
	for i, ln := range lines {
		if strings.HasPrefix(ln, "panic:") || strings.HasPrefix(ln, "fatal error:") {
			out := ln
			for _, l2 := range lines[i+1:] {
				if strings.Contains(l2, "x/fundraising/") {
					out += " @ " + strings.TrimSpace(l2)
					break
				}
			}
			return out
		}
	}
	if len(stderr) > 200 {
		return stderr[len(stderr)-200:]
	}
	return stderr
}
