package sim

// Direct oracles: evaluated on the implementation's own committed records,
// balances and recorded calls (independent of the reference model wherever the
// property can be stated that way).

import (
	"fmt"
	"math/big"
	"sort"
	"strings"
)

func (e *execState) fAdd(addr, denom string, amt *big.Int) {
	if e.foreign[addr] == nil {
		e.foreign[addr] = map[string]*big.Int{}
	}
	if e.foreign[addr][denom] == nil {
		e.foreign[addr][denom] = new(big.Int)
	}
	e.foreign[addr][denom].Add(e.foreign[addr][denom], amt)
}

func (e *execState) fGet(addr, denom string) *big.Int {
	if m, ok := e.foreign[addr]; ok {
		if v, ok := m[denom]; ok {
			return v
		}
	}
	return bigZero
}

func (e *execState) fClear(addr, denom string) {
	if m, ok := e.foreign[addr]; ok {
		if v, ok := m[denom]; ok && v.Sign() > 0 {
			e.res.Stats.Probes["foreign_deposit_swept"]++
		}
		delete(m, denom)
	}
}

func isEscrow(addr string, s *Snap) (kind string, id int) {
	for _, a := range s.Auctions {
		switch addr {
		case a.SellEscrow:
			return "selling", int(a.ID)
		case a.PayEscrow:
			return "paying", int(a.ID)
		case a.VestEscrow:
			return "vesting", int(a.ID)
		}
	}
	return "", -1
}

func snapBal(s *Snap, addr, denom string) *big.Int {
	if m, ok := s.Bal[addr]; ok {
		if v, ok := m[denom]; ok {
			return bigFromStr(v)
		}
	}
	return new(big.Int)
}

func prevAuction(prev *Snap, id uint64) *SAuction {
	if prev != nil && id < uint64(len(prev.Auctions)) && prev.Auctions[id].ID == id {
		return &prev.Auctions[id]
	}
	return nil
}

// reservation required by a stored bid, from the record alone
func sbidReserve(a *SAuction, b *SBid) *big.Int {
	amt := bigFromStr(b.Amt)
	if b.Denom == a.PayDenom {
		return amt
	}
	p, ok := parseDec(b.Price)
	if !ok {
		return new(big.Int)
	}
	return ceilMulDec(amt, p)
}

func sbidQty(a *SAuction, b *SBid) *big.Int {
	amt := bigFromStr(b.Amt)
	if b.Denom == a.PayDenom {
		p, ok := parseDec(b.Price)
		if !ok || p.Sign() <= 0 {
			return new(big.Int)
		}
		return floorDivDec(amt, p)
	}
	return amt
}

func (e *execState) directOracles(bo *blockObs) {
	res := e.res
	bi := bo.Idx
	prev, cur := bo.Prev, bo.Cur
	t := bo.Blk.TimeNs
	V := func(prop, rule, key, detail string) { res.addV(prop, rule, key, detail, bi, -1) }

	// ---------- foreign-deposit tracker: sweeps at settlement (begin block), then txs in order
	for i := range cur.Auctions {
		a := &cur.Auctions[i]
		pa := prevAuction(prev, a.ID)
		if pa != nil && pa.Status == StStarted && (a.Status == StVesting || a.Status == StFinished) {
			e.fClear(a.SellEscrow, a.SellDenom)
			e.fClear(a.PayEscrow, a.PayDenom)
		}
	}
	for i := range bo.Txs {
		o := &bo.Txs[i]
		if o.Code != 0 {
			continue
		}
		tx := &bo.Blk.Txs[o.Idx]
		switch tx.Msg.Kind {
		case KSend:
			if tx.Msg.ToKind != "actor" {
				addr := EscrowAddr(tx.Msg.ToKind, tx.Msg.ToAuction)
				for _, c := range tx.Msg.Coins {
					e.fAdd(addr, c.Denom, bi_(c.Amount))
				}
				res.Stats.Probes["foreign_deposit"]++
			}
		case KCancel:
			if tx.Msg.AuctionID < uint64(len(cur.Auctions)) {
				a := &cur.Auctions[tx.Msg.AuctionID]
				e.fClear(a.SellEscrow, a.SellDenom)
			}
		}
	}

	// ---------- C01: escrows hold exactly what the records owe
	for i := range cur.Auctions {
		a := &cur.Auctions[i]
		check := func(kind, addr string, owedDenom string, owed *big.Int) {
			denoms := map[string]bool{owedDenom: true}
			for d := range cur.Bal[addr] {
				denoms[d] = true
			}
			for d := range e.foreign[addr] {
				denoms[d] = true
			}
			for _, d := range sortedBoolKeys(denoms) {
				want := new(big.Int).Set(e.fGet(addr, d))
				if d == owedDenom {
					want.Add(want, owed)
				}
				got := snapBal(cur, addr, d)
				if got.Cmp(want) != 0 {
					V("C01", "escrow."+kind, fmt.Sprintf("%s:status%d", kind, a.Status),
						fmt.Sprintf("auction %d (type %d, status %d) %s escrow holds %s%s, records owe %s (incl. foreign deposits %s)", a.ID, a.Type, a.Status, kind, got, d, want, e.fGet(addr, d)))
				}
			}
		}
		owedSell := new(big.Int)
		if a.Status == StStandby || a.Status == StStarted {
			owedSell = bigFromStr(a.SellAmt)
		}
		check("selling", a.SellEscrow, a.SellDenom, owedSell)
		owedPay := new(big.Int)
		if a.Status == StStarted {
			for j := range a.Bids {
				owedPay.Add(owedPay, sbidReserve(a, &a.Bids[j]))
			}
		}
		check("paying", a.PayEscrow, a.PayDenom, owedPay)
		owedVest := new(big.Int)
		if a.Status == StVesting {
			for _, q := range a.Queue {
				if !q.Released {
					owedVest.Add(owedVest, bigFromStr(q.Amt))
				}
			}
		}
		check("vesting", a.VestEscrow, a.PayDenom, owedVest)
	}

	// ---------- paid-in tracker (C04): after this block's settlements, which precede its transactions
	defer func() {
		for i := range bo.Txs {
			o := &bo.Txs[i]
			if o.Code != 0 {
				continue
			}
			tx := &bo.Blk.Txs[o.Idx]
			if (tx.Msg.Kind != KPlaceBid && tx.Msg.Kind != KModifyBid) || tx.Msg.AuctionID >= uint64(len(cur.Auctions)) {
				continue
			}
			a := &cur.Auctions[tx.Msg.AuctionID]
			signer := e.addrOf(tx.Actor)
			for _, tr := range normCalls(o.Calls) {
				if tr.From == signer && tr.To == a.PayEscrow && tr.Denom == a.PayDenom {
					k := fmt.Sprintf("%d|%s", a.ID, signer)
					if e.paidIn[k] == nil {
						e.paidIn[k] = new(big.Int)
					}
					e.paidIn[k].Add(e.paidIn[k], tr.Amt)
				}
			}
		}
	}()

	// ---------- C02: zero-sum over everything the module touched in this block
	{
		funded := map[string]*big.Int{}
		for i := range bo.Txs {
			if bo.Txs[i].Code != 0 {
				continue
			}
			for _, tr := range normCalls(bo.Txs[i].Calls) {
				if tr.To == PoolAddr {
					if funded[tr.Denom] == nil {
						funded[tr.Denom] = new(big.Int)
					}
					funded[tr.Denom].Add(funded[tr.Denom], tr.Amt)
				}
			}
		}
		denoms := map[string]bool{}
		for _, m := range cur.Bal {
			for d := range m {
				denoms[d] = true
			}
		}
		for _, m := range prev.Bal {
			for d := range m {
				denoms[d] = true
			}
		}
		for _, d := range sortedBoolKeys(denoms) {
			sum := new(big.Int)
			for _, addr := range e.tracked {
				sum.Add(sum, snapBal(cur, addr, d))
				sum.Sub(sum, snapBal(prev, addr, d))
			}
			if funded[d] != nil {
				sum.Add(sum, funded[d])
			}
			if sum.Sign() != 0 {
				V("C02", "zero_sum", "block", fmt.Sprintf("block %d: balances of participants and escrows plus community-pool fees changed by %s%s in total", bi, sum, d))
			}
		}
		// the only debits on a user account: fee + reservation, and only from the signer
		for i := range bo.Txs {
			o := &bo.Txs[i]
			if o.Code != 0 {
				continue
			}
			tx := &bo.Blk.Txs[o.Idx]
			if tx.Msg.Kind == KSend {
				continue
			}
			signer := e.addrOf(tx.Actor)
			for _, tr := range normCalls(o.Calls) {
				if k, _ := isEscrow(tr.From, cur); k == "" && tr.From != signer {
					res.addV("C02", "debit.foreign_account", tx.Msg.Kind, fmt.Sprintf("tx %d (%s by %s) debited %s: %s", o.Idx, tx.Msg.Kind, short(signer), short(tr.From), tr), bi, o.Idx)
				}
			}
		}
	}

	// ---------- C05 / C06: allowance and supply
	for i := range cur.Auctions {
		a := &cur.Auctions[i]
		pa := prevAuction(prev, a.ID)
		if a.Type == TypeFixed {
			// remainder published = offered - sum accepted (while not cancelled)
			sum := new(big.Int)
			per := map[string]*big.Int{}
			for j := range a.Bids {
				q := sbidQty(a, &a.Bids[j])
				sum.Add(sum, q)
				if per[a.Bids[j].Bidder] == nil {
					per[a.Bids[j].Bidder] = new(big.Int)
				}
				per[a.Bids[j].Bidder].Add(per[a.Bids[j].Bidder], q)
				key := fmt.Sprintf("%d/%d", a.ID, a.Bids[j].ID)
				if _, seen := e.capAtAccept[key]; !seen {
					cap := a.Allowed[a.Bids[j].Bidder]
					e.capAtAccept[key] = cap
					if cap == "" {
						cap = "0"
					}
					if per[a.Bids[j].Bidder].Cmp(bigFromStr(cap)) > 0 {
						V("C05", "fixed.allowance_at_accept", "fixed", fmt.Sprintf("auction %d bid %d accepted: bidder's cumulative quantity %s exceeds allowance %s", a.ID, a.Bids[j].ID, per[a.Bids[j].Bidder], cap))
						V("C06", "fixed.allowance_at_accept", "fixed", fmt.Sprintf("auction %d bid %d accepted beyond allowance", a.ID, a.Bids[j].ID))
					}
					if sum.Cmp(bigFromStr(a.SellAmt)) == 0 {
						res.Stats.Probes["bid_exactly_exhausted_remainder"]++
					}
					if q.Sign() == 0 {
						res.Stats.Probes["fixed_bid_zero_quantity"]++
					}
				}
			}
			if a.Status != StCancelled {
				want := new(big.Int).Sub(bigFromStr(a.SellAmt), sum)
				if want.String() != a.Remaining {
					V("C06", "fixed.remainder", "remaining", fmt.Sprintf("auction %d publishes remainder %s, offered %s minus accepted %s = %s", a.ID, a.Remaining, a.SellAmt, sum, want))
				}
				if want.Sign() < 0 {
					V("C05", "fixed.oversold", "fixed", fmt.Sprintf("auction %d accepted %s of %s offered", a.ID, sum, a.SellAmt))
				}
			} else if a.Remaining != "0" {
				V("C12", "cancel.remainder", "remaining", fmt.Sprintf("cancelled auction %d publishes remainder %s", a.ID, a.Remaining))
			}
		}
		// at settlement: distribution bounds from the recorded transfers
		if pa != nil && pa.Status == StStarted && (a.Status == StVesting || a.Status == StFinished) {
			recv := map[string]*big.Int{}
			tot := new(big.Int)
			for _, tr := range normCalls(bo.Begin) {
				if tr.From == a.SellEscrow && tr.Denom == a.SellDenom && tr.To != a.Auctioneer {
					if recv[tr.To] == nil {
						recv[tr.To] = new(big.Int)
					}
					recv[tr.To].Add(recv[tr.To], tr.Amt)
					tot.Add(tot, tr.Amt)
				}
			}
			// ---------- C04: uniform price within rounding, from the implementation's own records and transfers
			e.c04Settlement(bo, a, recv)
			// a bidder who is also the auctioneer: count via allocation events is impossible from transfers alone; handled by refinement
			if tot.Cmp(bigFromStr(a.SellAmt)) > 0 {
				V("C05", "settle.oversold", "settle", fmt.Sprintf("auction %d distributed %s of %s offered", a.ID, tot, a.SellAmt))
			}
			for _, bidder := range sortedKeys(recv) {
				if a.Type == TypeBatch {
					cap := bigFromStr(a.Allowed[bidder])
					if recv[bidder].Cmp(cap) > 0 {
						V("C05", "settle.over_allowance", "batch", fmt.Sprintf("auction %d: %s received %s, allowance at settlement %s", a.ID, short(bidder), recv[bidder], cap))
					}
					if cap.Cmp(recv[bidder]) == 0 {
						res.Stats.Probes["cap_cut_or_met"]++
					}
				}
				// never more than asked: quantity bids ask their amount; worth bids can at most buy worth/minimum price
				asked := new(big.Int)
				for j := range a.Bids {
					b := &a.Bids[j]
					if b.Bidder != bidder {
						continue
					}
					if a.Type == TypeFixed {
						asked.Add(asked, sbidQty(a, b))
					} else if b.Type == BidMany {
						asked.Add(asked, bigFromStr(b.Amt))
					} else {
						mp, _ := parseDec(a.MinBidPrice)
						asked.Add(asked, floorDivDec(bigFromStr(b.Amt), mp))
					}
				}
				if recv[bidder].Cmp(asked) > 0 {
					V("C05", "settle.over_request", "settle", fmt.Sprintf("auction %d: %s received %s, asked for at most %s", a.ID, short(bidder), recv[bidder], asked))
				}
			}
		}
	}

	// ---------- C08: lifecycle edges
	for i := range cur.Auctions {
		a := &cur.Auctions[i]
		pa := prevAuction(prev, a.ID)
		if pa == nil {
			// an auction can be created and cancelled by two transactions of one block
			if a.Status != StStandby && a.Status != StStarted && a.Status != StCancelled {
				V("C08", "lifecycle.initial", fmt.Sprint(a.Status), fmt.Sprintf("auction %d created with status %d", a.ID, a.Status))
			}
			e.statusHist[a.ID] = []int{a.Status}
			continue
		}
		if pa.Status != a.Status {
			ok := (pa.Status == StStandby && (a.Status == StStarted || a.Status == StCancelled)) ||
				(pa.Status == StStarted && (a.Status == StVesting || a.Status == StFinished)) ||
				(pa.Status == StVesting && a.Status == StFinished)
			if !ok {
				V("C08", "lifecycle.edge", fmt.Sprintf("%d->%d", pa.Status, a.Status), fmt.Sprintf("auction %d moved from status %d to %d", a.ID, pa.Status, a.Status))
			}
			if pa.Status == StStarted && a.Status == StFinished && len(a.Vesting) > 0 {
				V("C08", "lifecycle.edge", "skip-vesting", fmt.Sprintf("auction %d with a vesting schedule finished without vesting", a.ID))
			}
			e.statusHist[a.ID] = append(e.statusHist[a.ID], a.Status)
		}
		// timing: not before its instant
		if pa.Status == StStandby && a.Status == StStarted && a.StartNs > t {
			V("C08", "lifecycle.early", "open", fmt.Sprintf("auction %d opened at %d before its start %d", a.ID, t, a.StartNs))
		}
		if pa.Status == StStarted && a.Status != StStarted && len(pa.EndTimes) > 0 && pa.EndTimes[len(pa.EndTimes)-1] > t {
			V("C08", "lifecycle.early", "settle", fmt.Sprintf("auction %d settled at %d before its end %d", a.ID, t, pa.EndTimes[len(pa.EndTimes)-1]))
		}
		if pa.Status == StStandby && a.Status == StStandby && a.StartNs <= t {
			V("C08", "lifecycle.late", "open", fmt.Sprintf("auction %d still waiting at %d although its start %d has passed", a.ID, t, a.StartNs))
		}
		if pa.Status == StVesting && a.Status == StVesting && len(a.Vesting) > 0 {
			var lastRel int64
			fmt.Sscanf(a.Vesting[len(a.Vesting)-1], "%d:", &lastRel)
			if lastRel <= t {
				V("C08", "lifecycle.late", "finish", fmt.Sprintf("auction %d still vesting at %d although its last release time %d has passed", a.ID, t, lastRel))
			}
		}
		if pa.Status == StStarted && a.Status == StStarted && len(a.EndTimes) == len(pa.EndTimes) && pa.EndTimes[len(pa.EndTimes)-1] <= t {
			V("C08", "lifecycle.late", "settle", fmt.Sprintf("auction %d neither settled nor extended at %d although its end %d has passed", a.ID, t, pa.EndTimes[len(pa.EndTimes)-1]))
		}
	}
	if len(cur.Auctions) < len(prev.Auctions) {
		V("C19", "auction.vanished", "count", fmt.Sprintf("auction count fell from %d to %d", len(prev.Auctions), len(cur.Auctions)))
	}

	// ---------- C09: vesting split and releases
	for i := range cur.Auctions {
		a := &cur.Auctions[i]
		pa := prevAuction(prev, a.ID)
		if pa == nil {
			continue
		}
		if len(pa.Queue) == 0 && len(a.Queue) > 0 {
			// settlement with a schedule: proceeds = what moved paying escrow -> vesting escrow
			proceeds := new(big.Int)
			for _, tr := range normCalls(bo.Begin) {
				if tr.From == a.PayEscrow && tr.To == a.VestEscrow && tr.Denom == a.PayDenom {
					proceeds.Add(proceeds, tr.Amt)
				}
			}
			if proceeds.Sign() == 0 {
				res.Stats.Probes["zero_proceeds_with_schedule"]++
			}
			if proceeds.Cmp(big.NewInt(int64(len(a.Queue)))) < 0 {
				res.Stats.Probes["proceeds_lt_instalments"]++
			}
			if len(a.Queue) != len(a.Vesting) {
				V("C09", "vesting.count", "split", fmt.Sprintf("auction %d: %d instalments for %d schedule entries", a.ID, len(a.Queue), len(a.Vesting)))
			} else {
				sum := new(big.Int)
				for j, q := range a.Queue {
					var rel int64
					var ws string
					fmt.Sscanf(a.Vesting[j], "%d:%s", &rel, &ws)
					w, _ := parseDec(ws)
					amt := bigFromStr(q.Amt)
					if j < len(a.Queue)-1 {
						want := floorMulDec(proceeds, w)
						if amt.Cmp(want) != 0 {
							V("C09", "vesting.split", "non-final", fmt.Sprintf("auction %d instalment %d is %s, weight share of %s rounded down is %s", a.ID, j, amt, proceeds, want))
						}
					}
					if q.ReleaseNs != rel || q.Denom != a.PayDenom || q.Auctioneer != a.Auctioneer {
						V("C09", "vesting.entry", "entry", fmt.Sprintf("auction %d instalment %d: %+v does not match schedule %s", a.ID, j, q, a.Vesting[j]))
					}
					if q.Released {
						V("C09", "vesting.early_release", "settle", fmt.Sprintf("auction %d instalment %d released at settlement", a.ID, j))
					}
					sum.Add(sum, amt)
				}
				if sum.Cmp(proceeds) != 0 {
					V("C09", "vesting.sum", "sum", fmt.Sprintf("auction %d instalments sum to %s, proceeds are %s", a.ID, sum, proceeds))
				}
			}
		}
		// releases in this block
		paid := []*big.Int{}
		for _, tr := range normCalls(bo.Begin) {
			if tr.From == a.VestEscrow {
				if tr.To != a.Auctioneer || tr.Denom != a.PayDenom {
					V("C09", "vesting.payee", "release", fmt.Sprintf("auction %d vesting escrow paid %s", a.ID, tr))
				}
				paid = append(paid, tr.Amt)
			}
		}
		wantPaid := []*big.Int{}
		for j := range a.Queue {
			q := a.Queue[j]
			if j >= len(pa.Queue) {
				continue
			}
			pq := pa.Queue[j]
			key := fmt.Sprintf("%d/%d", a.ID, q.ReleaseNs)
			if pq.Released && !q.Released {
				V("C09", "vesting.unreleased", "flag", fmt.Sprintf("auction %d instalment %d went back to unreleased", a.ID, j))
			}
			if q.Amt != pq.Amt {
				V("C09", "vesting.amount_changed", "amount", fmt.Sprintf("auction %d instalment %d amount changed %s -> %s", a.ID, j, pq.Amt, q.Amt))
			}
			due := q.ReleaseNs <= t && pa.Status == StVesting
			if !pq.Released && q.Released {
				if !due {
					V("C09", "vesting.early_release", "release", fmt.Sprintf("auction %d instalment %d (release %d) released at %d", a.ID, j, q.ReleaseNs, t))
				}
				if _, dup := e.releasedAt[key]; dup {
					V("C09", "vesting.twice", "release", fmt.Sprintf("auction %d instalment %d released twice", a.ID, j))
				}
				e.releasedAt[key] = bi
				if amt := bigFromStr(q.Amt); amt.Sign() > 0 {
					wantPaid = append(wantPaid, amt)
				}
			} else if !pq.Released && !q.Released && due {
				V("C09", "vesting.late_release", "release", fmt.Sprintf("auction %d instalment %d (release %d) not released at %d", a.ID, j, q.ReleaseNs, t))
			}
		}
		if !sameBigMultiset(paid, wantPaid) {
			V("C09", "vesting.payments", "release", fmt.Sprintf("auction %d: vesting escrow paid %v in this block, instalments released in this block are %v", a.ID, paid, wantPaid))
			V("C16", "released_flag", "release", fmt.Sprintf("auction %d: released flags do not match payments (%v vs %v)", a.ID, paid, wantPaid))
		}
		if a.Status == StFinished && pa.Status == StVesting {
			for j, q := range a.Queue {
				if !q.Released {
					V("C09", "vesting.finished_unreleased", "finish", fmt.Sprintf("auction %d finished with instalment %d unreleased", a.ID, j))
				}
			}
		}
		if len(a.Queue) < len(pa.Queue) {
			V("C09", "vesting.entry_removed", "queue", fmt.Sprintf("auction %d lost instalments: %d -> %d", a.ID, len(pa.Queue), len(a.Queue)))
		}
		// no schedule: all proceeds to the auctioneer at settlement
		if pa.Status == StStarted && a.Status == StFinished && len(a.Vesting) == 0 {
			left := snapBal(cur, a.PayEscrow, a.PayDenom)
			if left.Cmp(e.fGet(a.PayEscrow, a.PayDenom)) != 0 {
				V("C09", "vesting.none.proceeds", "settle", fmt.Sprintf("auction %d without schedule left %s in the paying escrow", a.ID, left))
			}
		}
	}

	// ---------- C10 / C11 / C19: bids
	for i := range cur.Auctions {
		a := &cur.Auctions[i]
		for j := range a.Bids {
			b := a.Bids[j]
			key := fmt.Sprintf("%d/%d", a.ID, b.ID)
			old, seen := e.everBids[key]
			if !seen {
				if _, ok := a.Allowed[b.Bidder]; !ok {
					V("C10", "bid.without_entry", "bid", fmt.Sprintf("auction %d bid %d recorded for %s who has no allow-list entry", a.ID, b.ID, short(b.Bidder)))
				}
				if b.ID != uint64(j+1) {
					V("C19", "bid.id_order", "bid", fmt.Sprintf("auction %d: bid at position %d has id %d", a.ID, j, b.ID))
				}
				e.everBids[key] = b
				continue
			}
			if old.Bidder != b.Bidder || old.Type != b.Type || old.AuctionID != b.AuctionID {
				V("C19", "bid.identity_changed", "bid", fmt.Sprintf("auction %d bid %d changed owner/type: %+v -> %+v", a.ID, b.ID, old, b))
				V("C11", "bid.identity_changed", "bid", fmt.Sprintf("auction %d bid %d changed owner/type", a.ID, b.ID))
				if _, ok := a.Allowed[b.Bidder]; !ok && old.Bidder != b.Bidder {
					V("C10", "bid.without_entry", "rewritten", fmt.Sprintf("auction %d bid %d is now recorded for %s who has no allow-list entry", a.ID, b.ID, short(b.Bidder)))
				}
			}
			if old.Denom != b.Denom {
				V("C11", "bid.denom_changed", "bid", fmt.Sprintf("auction %d bid %d changed denomination %s -> %s", a.ID, b.ID, old.Denom, b.Denom))
			}
			op, _ := parseDec(old.Price)
			np, _ := parseDec(b.Price)
			if np.Cmp(op) < 0 || bigFromStr(b.Amt).Cmp(bigFromStr(old.Amt)) < 0 {
				V("C11", "bid.lowered", "bid", fmt.Sprintf("auction %d bid %d lowered: %s@%s -> %s@%s", a.ID, b.ID, old.Amt, old.Price, b.Amt, b.Price))
			}
			e.everBids[key] = b
		}
		if a.BidSeq != uint64(len(a.Bids)) {
			V("C19", "bid.counter", "bid_seq", fmt.Sprintf("auction %d: bid counter %d, %d bids stored", a.ID, a.BidSeq, len(a.Bids)))
		}
	}
	for key := range e.everBids {
		var aid, bid uint64
		fmt.Sscanf(key, "%d/%d", &aid, &bid)
		if aid >= uint64(len(cur.Auctions)) || bid > uint64(len(cur.Auctions[aid].Bids)) {
			V("C11", "bid.removed", "bid", fmt.Sprintf("auction %d bid %d no longer exists", aid, bid))
		}
	}

	// ---------- C13: end-time arithmetic and bound
	for i := range cur.Auctions {
		a := &cur.Auctions[i]
		pa := prevAuction(prev, a.ID)
		if pa == nil || a.Type != TypeBatch {
			if pa != nil && len(a.EndTimes) != len(pa.EndTimes) {
				V("C13", "extend.fixed_price", "end_times", fmt.Sprintf("fixed-price auction %d end times changed", a.ID))
			}
			continue
		}
		if len(a.EndTimes) > int(a.MaxExtRound)+1 {
			V("C13", "extend.bound", "end_times", fmt.Sprintf("auction %d has %d end times, limit %d", a.ID, len(a.EndTimes), a.MaxExtRound+1))
		}
		if len(a.EndTimes) < len(pa.EndTimes) {
			V("C13", "extend.shrunk", "end_times", fmt.Sprintf("auction %d end times shrank", a.ID))
			continue
		}
		for j := range pa.EndTimes {
			if a.EndTimes[j] != pa.EndTimes[j] {
				V("C13", "extend.rewrote", "end_times", fmt.Sprintf("auction %d end time %d changed", a.ID, j))
				V("C19", "terms.first_end_time", "end_times", fmt.Sprintf("auction %d end time %d changed", a.ID, j))
			}
		}
		if len(a.EndTimes) > len(pa.EndTimes) {
			if len(a.EndTimes) != len(pa.EndTimes)+1 {
				V("C13", "extend.multi", "end_times", fmt.Sprintf("auction %d gained %d end times in one block", a.ID, len(a.EndTimes)-len(pa.EndTimes)))
			}
			last := pa.EndTimes[len(pa.EndTimes)-1]
			want := last + int64(cur.ExtPeriod)*dayNs
			if a.EndTimes[len(pa.EndTimes)] != want {
				V("C13", "extend.period", "end_times", fmt.Sprintf("auction %d appended end time %d, previous %d + %d day(s) = %d", a.ID, a.EndTimes[len(pa.EndTimes)], last, cur.ExtPeriod, want))
			}
			if pa.Status != StStarted || last > t {
				V("C13", "extend.when", "end_times", fmt.Sprintf("auction %d extended at %d (status %d, end %d)", a.ID, t, pa.Status, last))
			}
			res.Stats.Probes["extended_round"]++
		}
	}

	// ---------- C12: cancelled is permanent and nothing touches it
	for i := range cur.Auctions {
		a := &cur.Auctions[i]
		pa := prevAuction(prev, a.ID)
		if pa != nil && (pa.Status == StCancelled || pa.Status == StFinished) {
			x, y := *pa, *a
			if fmt.Sprintf("%+v", x) != fmt.Sprintf("%+v", y) {
				// allow-list changes by other modules are legal on any auction
				x.Allowed, y.Allowed = nil, nil
				if fmt.Sprintf("%+v", x) != fmt.Sprintf("%+v", y) {
					p := "C08"
					if pa.Status == StCancelled {
						p = "C12"
					}
					V(p, "terminal.changed", fmt.Sprint(pa.Status), fmt.Sprintf("terminal auction %d (status %d) changed: %+v -> %+v", a.ID, pa.Status, x, y))
				}
			}
		}
	}

	// ---------- C19: an auction that no operation of this block names and that passes no boundary does not change
	{
		named := map[uint64]bool{}
		for i := range bo.Blk.Pre {
			named[bo.Blk.Pre[i].AuctionID] = true
		}
		for i := range bo.Blk.Txs {
			m := &bo.Blk.Txs[i].Msg
			switch m.Kind {
			case KPlaceBid, KModifyBid, KCancel, KAddAllowed:
				named[m.AuctionID] = true
			case KSend:
				if m.ToKind != "actor" {
					named[m.ToAuction] = true
				}
			}
		}
		for i := range cur.Auctions {
			a := &cur.Auctions[i]
			pa := prevAuction(prev, a.ID)
			if pa == nil || named[a.ID] {
				continue
			}
			due := false
			switch pa.Status {
			case StStandby:
				due = pa.StartNs <= t
			case StStarted:
				due = pa.EndTimes[len(pa.EndTimes)-1] <= t
			case StVesting:
				// an instalment is due, or none is left (the auction may finish); otherwise nothing of a
				// vesting auction may move in this block - in particular not because another auction's
				// settlement or release was processed
				unreleased := 0
				for _, q := range pa.Queue {
					if !q.Released {
						unreleased++
						if q.ReleaseNs <= t {
							due = true
						}
					}
				}
				if unreleased == 0 {
					due = true
				}
			}
			if due {
				continue
			}
			if fmt.Sprintf("%+v", *pa) != fmt.Sprintf("%+v", *a) {
				V("C19", "frame.untouched_auction_changed", "record", fmt.Sprintf("auction %d was not named by any operation of block %d and passed no boundary, but its records changed: %+v -> %+v", a.ID, bi, *pa, *a))
			}
			for _, addr := range []string{a.SellEscrow, a.PayEscrow, a.VestEscrow} {
				if fmt.Sprint(prev.Bal[addr]) != fmt.Sprint(cur.Bal[addr]) {
					V("C19", "frame.untouched_auction_changed", "escrow", fmt.Sprintf("auction %d was not named by any operation of block %d and passed no boundary, but its escrow %s changed: %v -> %v", a.ID, bi, short(addr), prev.Bal[addr], cur.Bal[addr]))
				}
			}
			res.Stats.Probes["untouched_auction_frames_checked"]++
		}
	}

	// ---------- C19: immutable terms, ids
	for i := range cur.Auctions {
		a := cur.Auctions[i]
		if a.ID != uint64(i) {
			V("C19", "auction.id_order", "id", fmt.Sprintf("auction at position %d has id %d", i, a.ID))
		}
		first, seen := e.immut[a.ID]
		if !seen {
			e.immut[a.ID] = a
			if a.SellEscrow != EscrowAddr("selling", a.ID) || a.PayEscrow != EscrowAddr("paying", a.ID) || a.VestEscrow != EscrowAddr("vesting", a.ID) {
				V("C19", "terms.escrow_address", "escrow", fmt.Sprintf("auction %d escrow addresses are not the ones derived from its id", a.ID))
			}
			continue
		}
		chk := func(name, x, y string) {
			if x != y {
				V("C19", "terms."+name, name, fmt.Sprintf("auction %d %s changed: %s -> %s", a.ID, name, x, y))
			}
		}
		chk("type", fmt.Sprint(first.Type), fmt.Sprint(a.Type))
		chk("auctioneer", first.Auctioneer, a.Auctioneer)
		chk("selling_escrow", first.SellEscrow, a.SellEscrow)
		chk("paying_escrow", first.PayEscrow, a.PayEscrow)
		chk("vesting_escrow", first.VestEscrow, a.VestEscrow)
		chk("start_price", first.StartPrice, a.StartPrice)
		chk("min_bid_price", first.MinBidPrice, a.MinBidPrice)
		chk("selling_coin", first.SellAmt+first.SellDenom, a.SellAmt+a.SellDenom)
		chk("paying_denom", first.PayDenom, a.PayDenom)
		chk("vesting_schedules", fmt.Sprint(first.Vesting), fmt.Sprint(a.Vesting))
		chk("max_extended_round", fmt.Sprint(first.MaxExtRound), fmt.Sprint(a.MaxExtRound))
		chk("extended_round_rate", first.ExtRate, a.ExtRate)
		chk("start_time", fmt.Sprint(first.StartNs), fmt.Sprint(a.StartNs))
		if len(a.EndTimes) == 0 || a.EndTimes[0] != first.EndTimes[0] {
			V("C19", "terms.first_end_time", "end_times", fmt.Sprintf("auction %d first end time changed", a.ID))
		}
	}
	if cur.AuctionSeq != uint64(len(cur.Auctions)) {
		V("C19", "auction.counter", "auction_seq", fmt.Sprintf("auction counter %d, %d auctions stored", cur.AuctionSeq, len(cur.Auctions)))
	}
	for _, o := range cur.Orphans {
		V("C19", "orphan_record", "orphan", o)
	}
}

func bi_(s string) *big.Int { return bigFromStr(s) }

func sameBigMultiset(a, b []*big.Int) bool {
	if len(a) != len(b) {
		return false
	}
	sa, sb := []string{}, []string{}
	for _, x := range a {
		sa = append(sa, x.String())
	}
	for _, x := range b {
		sb = append(sb, x.String())
	}
	sort.Strings(sa)
	sort.Strings(sb)
	return strings.Join(sa, ",") == strings.Join(sb, ",")
}

// c16Published: a disagreement on a published-result field.
func (e *execState) c16Published(bo *blockObs, d Diff) {
	if d.Auction < 0 || int(d.Auction) >= len(e.model.Auctions) {
		return
	}
	a := e.model.Auctions[d.Auction]
	if a.Status != StVesting && a.Status != StFinished {
		return // before settlement the flags are provisional and the price unpublished
	}
	if a.SettledAtBlock != bo.Idx {
		return // report once, at the block of settlement
	}
	switch d.Field {
	case "matched_price":
		e.res.addV("C16", "published.matched_price", "matched_price", fmt.Sprintf("auction %d settled at clearing price %s but publishes %s", a.ID, d.Model, d.Impl), bo.Idx, -1)
	case "bid_matched":
		if a.AmbiguousCap {
			e.res.Stats.Relax["matched_flag_order"]++
			return
		}
		key := "batch"
		if a.Type == TypeFixed {
			key = "fixed"
		} else if len(a.EndTimes) > 1 {
			key = "batch-extended"
		}
		e.res.addV("C16", "published.bid_matched", key, fmt.Sprintf("auction %d after settlement: %s, settlement says %s", a.ID, d.Impl, d.Model), bo.Idx, -1)
	}
}

// noteState: abstract state signatures for reach measurement.
func (e *execState) noteState(bo *blockObs) {
	for _, a := range bo.Cur.Auctions {
		rel := 0
		for _, q := range a.Queue {
			if q.Released {
				rel++
			}
		}
		e.res.Stats.States[fmt.Sprintf("t%d s%d r%d b%s rem0=%v q%d/%d", a.Type, a.Status, len(a.EndTimes), bucket(len(a.Bids)), a.Remaining == "0", rel, len(a.Queue))] = true
	}
}

func bucket(n int) string {
	switch {
	case n == 0:
		return "0"
	case n == 1:
		return "1"
	case n <= 3:
		return "2-3"
	case n <= 8:
		return "4-8"
	case n <= 12:
		return "9-12"
	}
	return "13+"
}

// finish: end-of-run oracles and the run's abstract signature.
func (e *execState) finish(last *Snap) {
	st := e.res.Stats
	for k, v := range e.model.Relax {
		if strings.HasPrefix(k, "probe:") {
			st.Probes[strings.TrimPrefix(k, "probe:")] += v
		} else {
			st.Relax[k] += v
		}
	}
	var sigs []string
	for _, a := range last.Auctions {
		faults := []string{}
		for k, v := range st.Faults {
			if v > 0 {
				faults = append(faults, k)
			}
		}
		sort.Strings(faults)
		sigs = append(sigs, fmt.Sprintf("t%d s%d b%s r%d v%s", a.Type, a.Status, bucket(len(a.Bids)), len(a.EndTimes), bucket(len(a.Vesting))))
		if len(a.Bids) > 0 && (a.Status == StVesting || a.Status == StFinished) || a.Status == StCancelled {
			st.NonTrivial = true
		}
		_ = faults
	}
	sort.Strings(sigs)
	fk := []string{}
	for k, v := range st.Faults {
		if v > 0 {
			fk = append(fk, k)
		}
	}
	sort.Strings(fk)
	st.Sig = strings.Join(sigs, ";") + "|" + strings.Join(fk, ",")
}

// c04Settlement: every winner pays the same clearing price per coin received, at least
// price x quantity, less than one smallest paying unit more per matched bid, never more than
// reserved and never above the own bid; a bidder who wins nothing gets everything back. Fixed
// price: each bidder receives exactly the quantities of the recorded bids.
func (e *execState) c04Settlement(bo *blockObs, a *SAuction, recv map[string]*big.Int) {
	V := func(rule, key, detail string) { e.res.addV("C04", rule, key, detail, bo.Idx, -1) }
	reserved := map[string]*big.Int{}
	nMatched := map[string]int{}
	for j := range a.Bids {
		b := &a.Bids[j]
		if reserved[b.Bidder] == nil {
			reserved[b.Bidder] = new(big.Int)
		}
		reserved[b.Bidder].Add(reserved[b.Bidder], sbidReserve(a, b))
		if b.Matched {
			nMatched[b.Bidder]++
		}
	}
	// what the bidder really put in: the transfers of the accepted bids and modifications, recorded when
	// they happened (a modification that charges more than the increase in required reservation is
	// invisible in the stored bids)
	if a.Type == TypeBatch {
		for bidder := range reserved {
			if v := e.paidIn[fmt.Sprintf("%d|%s", a.ID, bidder)]; v != nil {
				if v.Cmp(reserved[bidder]) != 0 {
					e.res.Stats.Probes["paid_in_differs_from_recorded_reservation"]++
				}
				reserved[bidder] = new(big.Int).Set(v)
			}
		}
	}
	refund := map[string]*big.Int{}
	for _, tr := range normCalls(bo.Begin) {
		if tr.From == a.PayEscrow && tr.Denom == a.PayDenom && tr.To != a.VestEscrow {
			if _, isBidder := reserved[tr.To]; isBidder && !(tr.To == a.Auctioneer && len(a.Vesting) == 0 && refund[tr.To] != nil) {
				if refund[tr.To] == nil {
					refund[tr.To] = new(big.Int)
				}
				refund[tr.To].Add(refund[tr.To], tr.Amt)
			}
		}
	}
	if a.Type == TypeFixed {
		for bidder := range reserved {
			want := new(big.Int)
			for j := range a.Bids {
				if a.Bids[j].Bidder == bidder {
					want.Add(want, sbidQty(a, &a.Bids[j]))
				}
			}
			got := recv[bidder]
			if got == nil {
				got = new(big.Int)
			}
			if bidder != a.Auctioneer && got.Cmp(want) != 0 {
				V("fixed.quantity", "fixed", fmt.Sprintf("auction %d: %s received %s, the recorded bids buy %s at the fixed price", a.ID, short(bidder), got, want))
			}
		}
		return
	}
	p, ok := parseDec(a.MatchedPrice)
	if !ok {
		return
	}
	for _, bidder := range sortedKeys(reserved) {
		if bidder == a.Auctioneer {
			continue // the auctioneer bidding in the own auction: transfers to the same address cannot be told apart
		}
		q := recv[bidder]
		if q == nil {
			q = new(big.Int)
		}
		rf := refund[bidder]
		if rf == nil {
			rf = new(big.Int)
		}
		pay := new(big.Int).Sub(reserved[bidder], rf)
		if pay.Sign() < 0 {
			V("batch.refund_above_reservation", "refund", fmt.Sprintf("auction %d: %s was refunded %s of a reservation of %s", a.ID, short(bidder), rf, reserved[bidder]))
			continue
		}
		if q.Sign() == 0 {
			if pay.Sign() != 0 {
				V("batch.loser_paid", "refund", fmt.Sprintf("auction %d: %s received nothing but paid %s (reserved %s, refunded %s)", a.ID, short(bidder), pay, reserved[bidder], rf))
			}
			continue
		}
		if p.Sign() == 0 {
			V("batch.price_missing", "price", fmt.Sprintf("auction %d: %s received %s coins but the published clearing price is 0", a.ID, short(bidder), q))
			continue
		}
		lo := ceilMulDec(q, p) // pay >= p*q  <=>  pay >= ceil(p*q)
		k := nMatched[bidder]
		if k < 1 {
			k = 1
		}
		// pay < p*q + k
		hi := new(big.Int).Add(new(big.Int).Mul(q, p), new(big.Int).Mul(big.NewInt(int64(k)), decUnit))
		if pay.Cmp(lo) < 0 || new(big.Int).Mul(pay, decUnit).Cmp(hi) >= 0 {
			V("batch.payment_bounds", "payment", fmt.Sprintf("auction %d: %s received %s at clearing price %s and paid %s; allowed [%s, price*quantity + %d)", a.ID, short(bidder), q, a.MatchedPrice, pay, lo, k))
		}
		for j := range a.Bids {
			b := &a.Bids[j]
			if b.Bidder == bidder && b.Matched {
				if bp, _ := parseDec(b.Price); bp.Cmp(p) < 0 {
					V("batch.price_above_bid", "price", fmt.Sprintf("auction %d: bid %d at %s is matched at the higher clearing price %s", a.ID, b.ID, b.Price, a.MatchedPrice))
				}
			}
		}
	}
}
