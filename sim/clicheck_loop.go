package sim

import (
	"encoding/hex"
	"encoding/json"
	"fmt"
	"io"
	"math/big"
	"net"
	"net/http"
	"strings"
	"time"

	abci "github.com/cometbft/cometbft/abci/types"
	coretypes "github.com/cometbft/cometbft/rpc/core/types"
	rpctypes "github.com/cometbft/cometbft/rpc/jsonrpc/types"
	"github.com/cosmos/gogoproto/proto"
)

// rpcShim: the client <-> node transport for the shipped binary. It answers
// abci_query by forwarding to the simulated node's Query, one request at a
// time, while the simulator waits for the CLI process: lock-step, no scheduling
// freedom.
type rpcShim struct {
	ln   net.Listener
	node *Node
	srv  *http.Server
	n    int
}

func newRPCShim() (*rpcShim, error) {
	ln, err := net.Listen("tcp", "127.0.0.1:0")
	if err != nil {
		return nil, err
	}
	s := &rpcShim{ln: ln}
	mux := http.NewServeMux()
	mux.HandleFunc("/", s.handle)
	s.srv = &http.Server{Handler: mux}
	go s.srv.Serve(ln)
	return s, nil
}

func (s *rpcShim) addr() string { return "tcp://" + s.ln.Addr().String() }
func (s *rpcShim) close()       { _ = s.srv.Close() }

func (s *rpcShim) handle(w http.ResponseWriter, r *http.Request) {
	body, _ := io.ReadAll(r.Body)
	var req rpctypes.RPCRequest
	if err := json.Unmarshal(body, &req); err != nil {
		http.Error(w, "bad request", 400)
		return
	}
	var resp rpctypes.RPCResponse
	if req.Method != "abci_query" || s.node == nil {
		resp = rpctypes.RPCMethodNotFoundError(req.ID)
	} else {
		var p struct {
			Path   string `json:"path"`
			Data   string `json:"data"`
			Height string `json:"height"`
			Prove  bool   `json:"prove"`
		}
		_ = json.Unmarshal(req.Params, &p)
		data, _ := hex.DecodeString(p.Data)
		s.n++
		qr, err := s.node.App.Query(r.Context(), &abci.RequestQuery{Path: p.Path, Data: data})
		if err != nil {
			resp = rpctypes.RPCInternalError(req.ID, err)
		} else {
			resp = rpctypes.NewRPCSuccessResponse(req.ID, &coretypes.ResultABCIQuery{Response: *qr})
		}
	}
	b, err := json.Marshal(resp)
	if err != nil {
		http.Error(w, err.Error(), 500)
		return
	}
	w.Header().Set("Content-Type", "application/json")
	_, _ = w.Write(b)
}

func decInt(s string) string { // "1.5" -> "1500000000000000000" (AutoCLI convention for cosmos.Dec arguments in SDK 0.50)
	return mustDec(s).String()
}

func rfc3339(ns int64) string { return time.Unix(0, ns).UTC().Format(time.RFC3339Nano) }

var bidTypeArg = map[int32]string{BidFixed: "fixed-price", BidWorth: "batch-worth", BidMany: "batch-many"}

// cliArgs: the command line a user types for this message (nil if the CLI cannot express it).
func cliArgs(m *Msg) []string {
	vs := func() (string, bool) {
		if len(m.Vesting) != 1 {
			return "", false // the positional vesting-schedules argument takes exactly one schedule
		}
		return fmt.Sprintf(`{"release_time":%q,"weight":%q}`, rfc3339(m.Vesting[0].ReleaseNs), decInt(m.Vesting[0].Weight)), true
	}
	switch m.Kind {
	case KCreateFixed:
		v, ok := vs()
		if !ok {
			return nil
		}
		return []string{"create-fixed-price-auction", decInt(m.StartPrice), m.SellingCoin.Amount + m.SellingCoin.Denom, m.PayingDenom, v, rfc3339(m.StartNs), rfc3339(m.EndNs)}
	case KCreateBatch:
		v, ok := vs()
		if !ok {
			return nil
		}
		return []string{"create-batch-auction", decInt(m.StartPrice), decInt(m.MinBidPrice), m.SellingCoin.Amount + m.SellingCoin.Denom, m.PayingDenom, v, fmt.Sprint(m.MaxExtRound), decInt(m.ExtRate), rfc3339(m.StartNs), rfc3339(m.EndNs)}
	case KCancel:
		return []string{"cancel-auction", fmt.Sprint(m.AuctionID)}
	case KPlaceBid:
		bt, ok := bidTypeArg[m.BidType]
		if !ok {
			return nil
		}
		return []string{"place-bid", fmt.Sprint(m.AuctionID), bt, decInt(m.Price), m.Coin.Amount + m.Coin.Denom}
	case KModifyBid:
		return []string{"modify-bid", fmt.Sprint(m.AuctionID), fmt.Sprint(m.BidID), decInt(m.Price), m.Coin.Amount + m.Coin.Denom}
	}
	return nil
}

func cliExpressible(m *Msg) bool {
	if m.Kind == KSend {
		return false
	}
	// values the command line parser itself refuses are outside "what the user types is what is sent"
	for _, p := range []string{m.Price, m.StartPrice, m.MinBidPrice, m.ExtRate} {
		if p != "" {
			if d, ok := parseDec(p); !ok || d.Sign() < 0 {
				return false
			}
		}
	}
	for _, c := range []*Coin{m.Coin, m.SellingCoin} {
		if c != nil {
			if !validDenom(c.Denom) {
				return false
			}
			if a, ok := new(big.Int).SetString(c.Amount, 10); !ok || a.Sign() < 0 {
				return false
			}
		}
	}
	if (m.Kind == KCreateFixed || m.Kind == KCreateBatch) && !validDenom(m.PayingDenom) {
		return false
	}
	for _, v := range m.Vesting {
		if d, ok := parseDec(v.Weight); !ok || d.Sign() < 0 {
			return false
		}
	}
	return cliArgs(m) != nil
}

func cliInTheLoop(c *cliEnv, seed int64, budget time.Duration, pairs map[string]bool) (vs []cliViolation, stats map[string]interface{}, samples []interface{}, herr string) {
	start := time.Now()
	shim, err := newRPCShim()
	if err != nil {
		return nil, nil, nil, "rpc shim: " + err.Error()
	}
	defer shim.close()
	nHist, nTx, nTxCmp, nQ, lockViol := 0, 0, 0, 0, 0
	queriedSettle := map[int]bool{}
	arityDone := map[string]bool{}
	addV := func(rule, key, detail string, cmd []string) {
		vs = append(vs, cliViolation{rule, key, detail, cmd})
	}
	for run := 0; time.Since(start) < budget; run++ {
		s := Generate(SeedFor(seed, 77, run), "cli")
		// the command line names the signer by key (--from): it has no way to spell an address in upper case
		for bi := range s.Blocks {
			for ti := range s.Blocks[bi].Txs {
				s.Blocks[bi].Txs[ti].Msg.Upper = false
			}
		}
		// ---- every expressible tx is produced by the binary
		e0 := &execState{actors: MakeActors(s.Cfg.Actors)}
		for bi := range s.Blocks {
			for ti := range s.Blocks[bi].Txs {
				tx := &s.Blocks[bi].Txs[ti]
				if tx.Msg.Who != tx.Actor || !cliExpressible(&tx.Msg) {
					continue
				}
				args := append([]string{"tx", "fundraising"}, cliArgs(&tx.Msg)...)
				args = append(args, "--from", e0.addrOf(tx.Msg.Who), "--generate-only", "--chain-id", ChainID, "--output", "json")
				r := c.run(60*time.Second, args...)
				nTx++
				pairs["generate-only|"+tx.Msg.Kind+"|"+argShape(&tx.Msg)] = true
				if r.Panic || r.Exit != 0 {
					addV("cli.generate_only", tx.Msg.Kind, fmt.Sprintf("`%s` failed: exit %d %s", strings.Join(args, " "), r.Exit, abbreviate(firstNonEmpty(r.Err, r.Out))), args)
					continue
				}
				var doc struct {
					Body struct {
						Messages []json.RawMessage `json:"messages"`
					} `json:"body"`
				}
				if err := json.Unmarshal([]byte(r.Out), &doc); err != nil || len(doc.Body.Messages) != 1 {
					addV("cli.generate_only", tx.Msg.Kind, fmt.Sprintf("`%s` did not print a transaction with one message: %s", strings.Join(args, " "), abbreviate(r.Out)), args)
					continue
				}
				tx.RawMsgJSON = string(doc.Body.Messages[0])
				// arity: once per command, the same command line with one positional argument too many and
				// one too few must be refused (a positional that silently swallows or defaults an argument
				// sends something other than what was typed)
				if !arityDone[tx.Msg.Kind] {
					arityDone[tx.Msg.Kind] = true
					pos := cliArgs(&tx.Msg)
					tail := []string{"--from", e0.addrOf(tx.Msg.Who), "--generate-only", "--chain-id", ChainID, "--output", "json"}
					for _, variant := range [][]string{append(append([]string{}, pos...), pos[len(pos)-1]), pos[:len(pos)-1]} {
						if len(variant) < 1 {
							continue
						}
						va := append(append([]string{"tx", "fundraising"}, variant...), tail...)
						rr := c.run(60*time.Second, va...)
						pairs["arity|"+tx.Msg.Kind+"|"+fmt.Sprint(len(variant)-len(pos))] = true
						if rr.Panic {
							addV("cli.arity", tx.Msg.Kind, fmt.Sprintf("`%s` panics", strings.Join(va, " ")), va)
						} else if rr.Exit == 0 && strings.Contains(rr.Out, "\"messages\"") {
							addV("cli.arity", tx.Msg.Kind, fmt.Sprintf("`%s` has %d positional argument(s) instead of %d and is accepted: %s", strings.Join(va[:2+len(variant)], " "), len(variant)-1, len(pos)-1, abbreviate(rr.Out)), va)
						}
					}
				}
				if len(samples) < 3 {
					samples = append(samples, map[string]interface{}{"typed": strings.Join(args[2:], " "), "sent": json.RawMessage(tx.RawMsgJSON)})
				}
			}
		}
		// ---- the history is executed from what the binary emitted; what was typed is what is sent
		opts := ExecOpts{}
		opts.OnBlock = func(e *execState, bo *blockObs) {
			for i := range bo.Blk.Txs {
				tx := &bo.Blk.Txs[i]
				if tx.RawMsgJSON == "" {
					continue
				}
				want := e.buildMsg(&tx.Msg)
				wb, _ := proto.Marshal(want)
				got, err := decodeRawMsg(e.node, tx.RawMsgJSON)
				if err != nil {
					addV("cli.typed_vs_sent", tx.Msg.Kind, "emitted message does not decode: "+err.Error(), cliArgs(&tx.Msg))
					continue
				}
				gb, _ := proto.Marshal(got)
				nTxCmp++
				if string(wb) != string(gb) {
					addV("cli.typed_vs_sent", tx.Msg.Kind, fmt.Sprintf("typed `%s` but the binary emitted %s", strings.Join(cliArgs(&tx.Msg), " "), abbreviate(tx.RawMsgJSON)), append([]string{"tx", "fundraising"}, cliArgs(&tx.Msg)...))
				}
			}
			// queries at interesting moments: something settled, or every few blocks
			queried := false
			if (e.settles(bo.BeginFx) && !queriedSettle[run]) || bo.Idx == len(e.s.Blocks)-1 || bo.Idx == len(e.s.Blocks)/2 {
				queried = true
				if e.settles(bo.BeginFx) {
					queriedSettle[run] = true
				}
			}
			if queried {
				shim.node = e.node
				nQ += cliQueries(c, shim, e, bo, pairs, addV)
				shim.node = nil
			}
		}
		res := Execute(s, opts)
		nHist++
		if res.HarnessErr != "" {
			return vs, nil, nil, res.HarnessErr
		}
		for _, v := range res.Violations {
			lockViol++
			addV("cli.loop."+v.Property, v.Rule, fmt.Sprintf("history driven through the CLI: %s %s: %s", v.Property, v.Rule, v.Detail), nil)
		}
	}
	stats = map[string]interface{}{"histories_driven_through_cli": nHist, "transactions_generated_by_binary": nTx, "typed_vs_sent_comparisons": nTxCmp, "query_commands_run": nQ, "rpc_requests_served": shim.n, "lockstep_violations": lockViol}
	return
}

func firstNonEmpty(a, b string) string {
	if strings.TrimSpace(a) != "" {
		return a
	}
	return b
}

func argShape(m *Msg) string {
	s := ""
	if m.Coin != nil {
		s += "coin:" + m.Coin.Denom
	}
	if m.BidType != 0 {
		s += fmt.Sprintf("|bt%d", m.BidType)
	}
	if m.Price != "" && strings.Contains(strings.TrimRight(m.Price, "0"), ".") && !strings.HasSuffix(strings.TrimRight(m.Price, "0"), ".") {
		s += "|fractional-price"
	}
	if len(m.Vesting) > 0 {
		s += "|vesting"
	}
	return s
}

func decodeRawMsg(n *Node, raw string) (proto.Message, error) {
	var any anyT
	if err := n.App.AppCodec().UnmarshalJSON([]byte(raw), &any); err != nil {
		return nil, err
	}
	var m sdkMsg
	if err := n.App.AppCodec().InterfaceRegistry().UnpackAny(&any, &m); err != nil {
		return nil, err
	}
	return m, nil
}
