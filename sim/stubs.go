package sim

import abci "github.com/cometbft/cometbft/abci/types"

var _ abci.Event

func (e *execState) checkHooksBlock(bo *blockObs, br BlockResult, fx BlockEffects, halted bool) {}
func (e *execState) checkWriteSets(bo *blockObs)                                              {}
func (e *execState) joinExport(bo *blockObs)                                                  {}
func (e *execState) joinedBlock(bo *blockObs, txs [][]byte)                                   {}

type linRecorder struct{}

func newLinRecorder() *linRecorder { return &linRecorder{} }
