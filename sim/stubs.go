package sim

import abci "github.com/cometbft/cometbft/abci/types"

var _ abci.Event
