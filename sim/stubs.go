package sim

import abci "github.com/cometbft/cometbft/abci/types"

var _ abci.Event

func (e *execState) checkWriteSets(bo *blockObs)                                              {}

type linRecorder struct{}

func newLinRecorder() *linRecorder { return &linRecorder{} }
