package main

import (
	"bytes"
	"encoding/json"
	"flag"
	"fmt"
	"os"
	"os/exec"
	"strings"
	"time"

	sim "verif/sim"
)

func usage() {
	fmt.Println("usage: verifsim check <id> --tier quick|thorough | worker ... | run --seed N --profile P [--n K] | gen --seed N --profile P | replay <file> | selftest")
	os.Exit(2)
}

func main() {
	if len(os.Args) < 2 {
		usage()
	}
	verifDir := os.Getenv("VERIF_DIR")
	if verifDir == "" {
		verifDir = "/verif"
	}
	switch os.Args[1] {
	case "check":
		fs := flag.NewFlagSet("check", flag.ExitOnError)
		tier := fs.String("tier", "quick", "")
		if len(os.Args) < 3 {
			usage()
		}
		_ = fs.Parse(os.Args[3:])
		self, _ := os.Executable()
		os.Exit(sim.RunCheck(self, os.Args[2], *tier, verifDir))
	case "worker":
		fs := flag.NewFlagSet("worker", flag.ExitOnError)
		prop := fs.String("prop", "", "")
		seed := fs.Int64("seed", 1, "")
		worker := fs.Int("worker", 0, "")
		budget := fs.Int("budget-s", 10, "")
		maxRuns := fs.Int("max-runs", 0, "")
		out := fs.String("out", "", "")
		wtier := fs.String("tier", "quick", "")
		startRun := fs.Int("start-run", 0, "")
		progress := fs.String("progress", "", "")
		_ = fs.Parse(os.Args[2:])
		spec := sim.SpecFor(*prop, *wtier)
		wo := sim.RunWorker(spec, *seed, *worker, time.Duration(*budget)*time.Second, *maxRuns, *startRun, *progress)
		b, _ := json.Marshal(wo)
		if err := os.WriteFile(*out, b, 0o644); err != nil {
			fmt.Fprintln(os.Stderr, err)
			os.Exit(2)
		}
	case "shrink":
		fs := flag.NewFlagSet("shrink", flag.ExitOnError)
		in := fs.String("in", "", "")
		out := fs.String("out", "", "")
		_ = fs.Parse(os.Args[2:])
		if err := sim.RunShrinkJob(*in, *out); err != nil {
			fmt.Fprintln(os.Stderr, err)
			os.Exit(2)
		}
	case "run":
		fs := flag.NewFlagSet("run", flag.ExitOnError)
		seed := fs.Int64("seed", 1, "")
		profile := fs.String("profile", "general", "")
		n := fs.Int("n", 1, "")
		verbose := fs.Bool("v", false, "")
		trace := fs.Bool("trace", false, "")
		queries := fs.Bool("queries", false, "")
		enum := fs.Bool("enum", false, "")
		_ = fs.Parse(os.Args[2:])
		t0 := time.Now()
		counts := map[string]int{}
		for i := 0; i < *n; i++ {
			s := sim.Generate(*seed+int64(i), *profile)
			res := sim.Execute(s, sim.ExecOpts{KeepTrace: *verbose, Trace: *trace, Queries: *queries, BankFailEnum: *enum, EnumAll: *enum, MaxEnumBlocks: 60})
			if res.HarnessErr != "" {
				fmt.Printf("seed %d HARNESS %s\n", *seed+int64(i), res.HarnessErr)
			}
			for _, v := range res.Violations {
				counts[v.Property+" "+v.Rule+" "+v.Key]++
				if *n <= 3 || counts[v.Property+" "+v.Rule+" "+v.Key] <= 1 {
					fmt.Printf("seed %d %s %s [%s] b%d tx%d: %s\n", *seed+int64(i), v.Property, v.Rule, v.Key, v.Block, v.Tx, v.Detail)
				}
			}
			if *verbose {
				for _, l := range res.TraceLines {
					fmt.Println(l)
				}
				b, _ := json.Marshal(res.Stats)
				fmt.Println(string(b))
			}
		}
		fmt.Printf("%d runs in %.1fs\n", *n, time.Since(t0).Seconds())
		for k, v := range counts {
			fmt.Printf("  %5d  %s\n", v, k)
		}
	case "tracehash":
		fs := flag.NewFlagSet("tracehash", flag.ExitOnError)
		seed := fs.Int64("seed", 1, "")
		profile := fs.String("profile", "general", "")
		prop := fs.String("prop", "", "")
		_ = fs.Parse(os.Args[2:])
		opts := sim.ExecOpts{}
		if *prop != "" {
			opts = sim.SpecFor(*prop, "quick").Opts
			opts.BankFailEnum = false
		}
		res := sim.Execute(sim.Generate(*seed, *profile), opts)
		if res.HarnessErr != "" {
			fmt.Println("HARNESS", res.HarnessErr)
			os.Exit(2)
		}
		fmt.Printf("%s %d\n", res.TraceHash, len(res.Violations))
	case "selftest":
		fs := flag.NewFlagSet("selftest", flag.ExitOnError)
		seeds := fs.Int("seeds", 30, "")
		base := fs.Int64("seed", 1, "")
		prop := fs.String("prop", "", "run with the options of this property's check (e.g. C19: projection)")
		_ = fs.Parse(os.Args[2:])
		self, _ := os.Executable()
		r := sim.SelfTest(self, *base, *seeds, []string{"general", "book", "fixed", "replicas", "genesis", "hooks", "crowd", "sprawl", "concurrent", "extreme", "clock"}, []int{1, 4, 16}, 2, *prop)
		b, _ := json.Marshal(r)
		fmt.Println(string(b))
		if r.Mismatches > 0 {
			os.Exit(1)
		}
	case "gen":
		fs := flag.NewFlagSet("gen", flag.ExitOnError)
		seed := fs.Int64("seed", 1, "")
		profile := fs.String("profile", "general", "")
		_ = fs.Parse(os.Args[2:])
		b, _ := json.MarshalIndent(sim.Generate(*seed, *profile), "", " ")
		fmt.Println(string(b))
	case "replay":
		if len(os.Args) < 3 {
			usage()
		}
		if strings.HasSuffix(os.Args[2], ".cmd.json") {
			ok, out, err := sim.ReplayCmd(os.Args[2])
			if err != nil {
				fmt.Println(err)
				os.Exit(2)
			}
			fmt.Println(out)
			if ok {
				fmt.Printf("VIOLATION replay=%s\n", os.Args[2])
				os.Exit(1)
			}
			fmt.Println("recorded violation did not reproduce")
			return
		}
		if os.Getenv("VERIF_REPLAY_CHILD") == "" {
			// run the replay in a child process: a violation may be a crash of the node process itself
			self, _ := os.Executable()
			cmd := exec.Command(self, "replay", os.Args[2])
			cmd.Env = append(os.Environ(), "VERIF_REPLAY_CHILD=1")
			var buf bytes.Buffer
			cmd.Stdout, cmd.Stderr = &buf, &buf
			err := cmd.Run()
			out := buf.String()
			for _, ln := range strings.Split(out, "\n") {
				if !strings.HasPrefix(ln, "sellingReserve: ") && !strings.HasPrefix(ln, "auction.GetSellingCoin(): ") && ln != "" {
					fmt.Println(ln)
				}
			}
			if err == nil {
				return
			}
			if ee, ok := err.(*exec.ExitError); ok && ee.ExitCode() == 1 {
				os.Exit(1)
			}
			if strings.Contains(out, "panic:") || strings.Contains(out, "fatal error:") {
				fmt.Printf("the node process died while executing the replay\nVIOLATION property=C07 replay=%s\n", os.Args[2])
				os.Exit(1)
			}
			os.Exit(2)
		}
		ok, res, rf, err := sim.Replay(os.Args[2])
		if err != nil {
			fmt.Println(err)
			os.Exit(2)
		}
		if res.HarnessErr != "" {
			fmt.Println("HARNESS:", res.HarnessErr)
			os.Exit(2)
		}
		for _, v := range res.Violations {
			fmt.Printf("%s %s [%s] b%d tx%d: %s\n", v.Property, v.Rule, v.Key, v.Block, v.Tx, v.Detail)
		}
		fmt.Printf("trace_hash=%s recorded=%s\n", res.TraceHash, rf.TraceHash)
		if ok {
			fmt.Printf("VIOLATION property=%s replay=%s\n", rf.Property, os.Args[2])
			os.Exit(1)
		}
		fmt.Println("recorded violation did not reproduce")
	default:
		usage()
	}
}
