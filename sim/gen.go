package sim

// Seeded generator: Generate(seed, profile) -> Schedule. The only source of
// choice is one PRNG initialised from the seed. The generator steps a private
// copy of the reference model so that it knows which auctions exist, which
// instants are interesting and which operations are valid or invalid for
// exactly one reason. It never looks at the implementation.

import (
	"fmt"
	sdk "github.com/cosmos/cosmos-sdk/types"
	"math/big"
	"math/rand"
	"sort"
)

const GenesisNs = int64(1893456000) * 1e9 // 2030-01-01T00:00:00Z

type Profile struct {
	Name        string
	FixedOnly   bool
	BatchOnly   bool
	MaxAuctions int
	Blocks      [2]int
	TxPerBlock  int
	Scale       string // "" = draw
	Vesting     [2]int // instalment count range
	MaxRounds   [2]int
	Faults      map[string]float64 // per-block probability
	WInvalid    float64            // share of deliberately invalid messages
	WAdversary  float64
	WForeign    float64
	WModify     float64
	WCancel     float64
	WCapChange  float64
	WParams     float64
	Replicas    int
	Listeners   int
	BookBuilder bool // many bids in few blocks (C03/C04)
	Drain       bool
	Concurrent  bool // >= 3 auctions sharing everything (C19)
	Extreme     bool
}

func baseProfile() Profile {
	return Profile{Name: "general", MaxAuctions: 4, Blocks: [2]int{8, 40}, TxPerBlock: 3, Vesting: [2]int{0, 4}, MaxRounds: [2]int{0, 3},
		Faults:   map[string]float64{FCrashPre: 0.04, FCrashPost: 0.03, FLostCommit: 0.02, FOEAbort: 0.03, FOEHit: 0.03, FQuery: 0.03, FCheckTx: 0.03, FDiscarded: 0.05},
		WInvalid: 0.25, WAdversary: 0.05, WForeign: 0.06, WModify: 0.15, WCancel: 0.05, WCapChange: 0.08, WParams: 0.03, Drain: true}
}

func ProfileFor(name string) Profile {
	p := baseProfile()
	p.Name = name
	switch name {
	case "general":
	case "book": // C03 / C04 / C05 / C16
		p.BatchOnly, p.MaxAuctions, p.BookBuilder, p.Blocks, p.TxPerBlock = true, 2, true, [2]int{4, 14}, 6
		p.WInvalid, p.WCapChange, p.WModify = 0.08, 0.15, 0.2
		p.MaxRounds = [2]int{0, 4}
	case "bigbook": // order books of more than 12 bids (the implementation's bid sort changes algorithm there)
		p.BatchOnly, p.MaxAuctions, p.BookBuilder, p.Blocks, p.TxPerBlock = true, 1, true, [2]int{4, 9}, 14
		p.WInvalid, p.WCapChange, p.WModify, p.WForeign, p.WAdversary, p.WCancel = 0.02, 0.1, 0.1, 0.01, 0.0, 0.0
		p.MaxRounds = [2]int{0, 2}
	case "crowd": // one auction with more than a hundred bids (page sizes, sort cut-offs, anything that is fine for a few)
		p.BatchOnly, p.MaxAuctions, p.BookBuilder, p.Blocks, p.TxPerBlock = true, 1, true, [2]int{6, 9}, 48
		p.WInvalid, p.WCapChange, p.WModify, p.WForeign, p.WAdversary, p.WCancel, p.WParams = 0.01, 0.02, 0.03, 0.0, 0.0, 0.0, 0.0
		p.MaxRounds, p.Vesting = [2]int{0, 1}, [2]int{0, 2}
		p.Faults = map[string]float64{FCrashPre: 0.02}
	case "sprawl": // more than a hundred auctions: whatever walks "all auctions" must reach the last one
		p.MaxAuctions, p.Blocks, p.TxPerBlock = 112, [2]int{7, 10}, 30
		p.WInvalid, p.WCapChange, p.WModify, p.WForeign, p.WAdversary, p.WCancel, p.WParams = 0.01, 0.02, 0.03, 0.0, 0.0, 0.02, 0.0
		p.MaxRounds, p.Vesting = [2]int{0, 1}, [2]int{0, 2}
		p.Faults = map[string]float64{FCrashPre: 0.02}
	case "town": // C15: a dozen auctions with ten to twenty bids each (ids and bid numbers with two digits)
		p.MaxAuctions, p.BookBuilder, p.Blocks, p.TxPerBlock = 14, true, [2]int{8, 11}, 30
		p.WInvalid, p.WCapChange, p.WModify, p.WForeign, p.WAdversary, p.WCancel, p.WParams = 0.02, 0.03, 0.05, 0.01, 0.0, 0.01, 0.01
		p.MaxRounds, p.Vesting = [2]int{0, 1}, [2]int{0, 3}
		p.Faults = map[string]float64{FCrashPre: 0.02, FJoinExport: 0.08}
	case "fixed": // C06
		p.FixedOnly, p.MaxAuctions, p.TxPerBlock = true, 3, 5
		p.WInvalid = 0.3
	case "clock": // C08 / C09 / C12
		p.MaxAuctions, p.Vesting, p.Blocks = 4, [2]int{0, 8}, [2]int{10, 50}
		p.WCancel, p.WForeign = 0.15, 0.1
	case "vesting": // C09
		p.MaxAuctions, p.Vesting, p.Blocks = 3, [2]int{1, 12}, [2]int{8, 30}
	case "rounds": // C13
		p.BatchOnly, p.MaxAuctions, p.MaxRounds, p.Blocks = true, 2, [2]int{1, 8}, [2]int{8, 30}
		p.WCapChange, p.WParams, p.WModify = 0.15, 0.08, 0.25
	case "replicas": // C14
		p.Replicas = 2
		p.Faults[FCrashPre], p.Faults[FLostCommit], p.Faults[FOEAbort], p.Faults[FOEHit] = 0.12, 0.06, 0.08, 0.08
		p.BookBuilder, p.TxPerBlock = true, 5
	case "genesis": // C15
		p.MaxAuctions, p.Vesting = 5, [2]int{0, 5}
		p.Faults[FJoinExport] = 0.12
	case "messages": // C18
		p.WInvalid, p.WAdversary = 0.5, 0.1
		p.Faults[FBankFail] = 0.2
	case "concurrent": // C19
		p.Concurrent, p.MaxAuctions, p.TxPerBlock = true, 6, 5
	case "hooks": // C17 background
		p.Listeners = 2
	case "deep": // thorough tier: more auctions, longer histories, deep rounds and schedules
		p.MaxAuctions, p.Blocks, p.TxPerBlock = 6, [2]int{40, 110}, 4
		p.Vesting, p.MaxRounds = [2]int{0, 30}, [2]int{0, 12}
		p.WCapChange, p.WParams, p.WModify = 0.12, 0.05, 0.2
	case "cli": // C20: histories the command line can express
		p.MaxAuctions, p.Vesting, p.Blocks, p.TxPerBlock = 3, [2]int{1, 1}, [2]int{6, 14}, 2
		p.Faults = map[string]float64{}
		p.WInvalid, p.WForeign, p.WAdversary = 0.1, 0.02, 0.0
	case "extreme": // C07
		p.Extreme = true
		p.Blocks = [2]int{6, 25}
	case "idle": // C07
		p.Blocks = [2]int{5, 15}
	}
	return p
}

type gen struct {
	r      *rand.Rand
	p      Profile
	s      *Schedule
	m      *Model
	now    int64
	scale  string
	denoms []string
	nAuc   int
	whale  bool
	// bookkeeping on drawn choices (reported as probes)
	intents map[string]int
}

func (g *gen) chance(p float64) bool { return g.r.Float64() < p }
func (g *gen) in(lo, hi int) int {
	if hi <= lo {
		return lo
	}
	return lo + g.r.Intn(hi-lo+1)
}
func (g *gen) pick(xs ...string) string { return xs[g.r.Intn(len(xs))] }

var priceMenu = []string{"1", "0.5", "2", "0.333333333333333333", "1.000000000000000001", "3.7", "0.142857142857142857", "2.5", "10", "0.999999999999999999", "7",
	"0.666666666666666667", "4.666666666666666667", "6.666666666666666667", "0.7", "0.9", "1.1", "0.3", "0.35",
	"3.000000000000000001", "2.000000000000000003", "4.999999999999999999"}
var tinyPrices = []string{"0.000000000000000001", "0.000000000000000003", "0.01"}
var bigPrices = []string{"1000000", "123456789.123456789123456789", "1000000000000000000"}

func (g *gen) price() string {
	x := g.r.Float64()
	switch {
	case g.p.Extreme && x < 0.3:
		return g.pick(append(tinyPrices, bigPrices...)...)
	case x < 0.05:
		return g.pick(tinyPrices...)
	case x < 0.1:
		return g.pick(bigPrices[:2]...)
	}
	return g.pick(priceMenu...)
}

func (g *gen) amount() *big.Int {
	switch g.scale {
	case "tiny":
		return big.NewInt(int64(g.in(1, 30)))
	case "medium":
		return big.NewInt(int64(g.in(1, 5_000_000)))
	case "extreme":
		if g.whale && g.chance(0.25) {
			// of the order of the whale's balance: 2^254 .. 2^255.9
			v := new(big.Int).Lsh(big.NewInt(1), 254)
			return v.Add(v, new(big.Int).Rand(g.r, new(big.Int).Lsh(big.NewInt(3), 253)))
		}
		if g.chance(0.5) {
			e := g.in(20, 70)
			v := new(big.Int).Exp(big.NewInt(10), big.NewInt(int64(e)), nil)
			return v.Add(v, big.NewInt(int64(g.in(0, 999))))
		}
		return big.NewInt(int64(g.in(1, 1000)))
	}
	if g.chance(0.08) {
		// around the machine-word boundaries: a fast path in 64-bit arithmetic is exact below them
		b := new(big.Int).Lsh(big.NewInt(1), uint(g.pickInt(53, 63, 64, 64)))
		switch g.r.Intn(4) {
		case 0:
			b.Sub(b, big.NewInt(1))
		case 1:
			b.Add(b, big.NewInt(1))
		case 2:
			b.Quo(b, big.NewInt(int64(g.in(2, 3)))) // so that a product with a small price crosses the boundary
		}
		g.intents["amount_at_word_boundary"]++
		return b
	}
	e := g.in(6, 24)
	v := new(big.Int).Exp(big.NewInt(10), big.NewInt(int64(e)), nil)
	return v.Add(v, big.NewInt(int64(g.in(0, 999999))))
}

func (g *gen) startBalance() string {
	switch g.scale {
	case "tiny":
		return "100000000000"
	case "medium":
		return "100000000000000000"
	case "extreme":
		return "1" + fmt.Sprintf("%075d", 0) // 1e75
	}
	return "1" + fmt.Sprintf("%030d", 0)
}

// Generate builds a schedule from one integer.
func Generate(seed int64, profile string) *Schedule {
	p := ProfileFor(profile)
	g := &gen{r: rand.New(rand.NewSource(seed)), p: p, intents: map[string]int{}}
	g.scale = p.Scale
	if g.scale == "" {
		g.scale = g.pick("tiny", "tiny", "tiny", "medium", "medium", "large")
		if p.Extreme {
			g.scale = "extreme"
		}
	}
	g.denoms = []string{"stake", "uatom", "usell", "upay", "denomx"}
	nAct := g.in(3, 8)
	cfg := Config{Actors: nAct, Balances: map[string]string{}, Replicas: p.Replicas, Listeners: p.Listeners, Profile: profile}
	for _, d := range g.denoms {
		cfg.Balances[d] = g.startBalance()
	}
	// a poor actor or two
	cfg.Poor = map[int]map[string]string{}
	if g.chance(0.5) {
		who := g.in(0, nAct-1)
		pb := map[string]string{}
		for _, d := range g.denoms {
			switch g.r.Intn(3) {
			case 0:
				pb[d] = "0"
			case 1:
				pb[d] = fmt.Sprint(g.in(1, 200))
			default:
				pb[d] = cfg.Balances[d]
			}
		}
		cfg.Poor[who] = pb
	}
	if p.Extreme && g.chance(0.5) {
		// a whale holding more than half of the largest representable supply of two denominations
		// (total supply must stay below 2^256, so there is only one)
		who := g.in(0, nAct-1)
		pb := map[string]string{}
		for _, d := range g.denoms {
			pb[d] = cfg.Balances[d]
		}
		whale := "90000000000000000000000000000000000000000000000000000000000000000000000000000" // 9e76 > 2^255
		ds := g.r.Perm(len(g.denoms))
		pb[g.denoms[ds[0]]] = whale
		pb[g.denoms[ds[1]]] = whale
		cfg.Poor[who] = pb
		g.whale = true
	}
	// params
	switch g.r.Intn(4) {
	case 0:
		cfg.Params = ParamsSpec{CreationFee: []Coin{{"stake", "100000000"}}, BidFee: nil, ExtPeriod: 1}
	case 1:
		cfg.Params = ParamsSpec{CreationFee: nil, BidFee: nil, ExtPeriod: uint32(g.pickInt(0, 1, 2, 7))}
	case 2:
		cfg.Params = ParamsSpec{CreationFee: []Coin{{"stake", fmt.Sprint(g.in(1, 50))}, {"uatom", fmt.Sprint(g.in(1, 9))}}, BidFee: []Coin{{"stake", fmt.Sprint(g.in(1, 5))}}, ExtPeriod: uint32(g.pickInt(0, 1, 2))}
	default:
		cfg.Params = ParamsSpec{CreationFee: []Coin{{"stake", fmt.Sprint(g.in(1, 1000))}}, BidFee: []Coin{{"upay", fmt.Sprint(g.in(1, 3))}}, ExtPeriod: 1}
	}
	g.s = &Schedule{Seed: seed, Cfg: cfg, GenesisNs: GenesisNs}
	actors := MakeActors(nAct)
	var addrs []string
	for _, a := range actors {
		addrs = append(addrs, a.Bech)
	}
	mbal, _ := parseBalances(&cfg, actors)
	g.m = NewModel(addrs, mbal, toMParams(cfg.Params), EscrowAddr)
	g.now = GenesisNs + 1 // first (setup) block
	g.m.Now = g.now

	nBlocks := g.in(p.Blocks[0], p.Blocks[1])
	for b := 0; b < nBlocks; b++ {
		g.genBlock(b, false)
	}
	if p.Drain {
		g.drain()
	}
	if p.Name == "idle" || g.chance(0.3) {
		// idle tail long after everything is terminal
		for i, n := 0, g.in(2, 6); i < n; i++ {
			g.now += int64(g.pickInt(1, 1e9, 3600e9, 86400e9*400))
			g.emit(Block{TimeNs: g.now})
		}
	}
	return g.s
}

func (g *gen) pickInt(xs ...int64) int64 { return xs[g.r.Intn(len(xs))] }

func (g *gen) emit(b Block) {
	g.m.BlockIdx = len(g.s.Blocks)
	g.m.StepBlock(&b, nil, -1)
	g.s.Blocks = append(g.s.Blocks, b)
}

// interesting instants of the current model state
func (g *gen) instants() []int64 {
	var out []int64
	for _, a := range g.m.Auctions {
		switch a.Status {
		case StStandby:
			if a.StartNs < FarBaseNs { // an auction scheduled centuries ahead is never reached by a run
				out = append(out, a.StartNs)
			}
		case StStarted:
			out = append(out, a.EndTimes[len(a.EndTimes)-1])
		case StVesting:
			for _, q := range a.Queue {
				if !q.Released {
					out = append(out, q.ReleaseNs)
				}
			}
		}
	}
	sort.Slice(out, func(i, j int) bool { return out[i] < out[j] })
	return out
}

func (g *gen) nextTime() int64 {
	ins := g.instants()
	var future []int64
	for _, t := range ins {
		if t > g.now-2 {
			future = append(future, t)
		}
	}
	x := g.r.Float64()
	switch {
	case len(future) > 0 && x < 0.45:
		// land on / just before / just after a boundary; sometimes skip over several
		idx := 0
		if g.chance(0.25) {
			idx = g.r.Intn(len(future))
			if idx > 0 {
				g.intents["clock_skip"]++
			}
		}
		t := future[idx] + g.pickInt(0, 0, 0, -1, 1)
		if t > g.now {
			g.intents["clock_edge"]++
			return t
		}
		return g.now + 1
	case x < 0.6:
		return g.now + 1
	case x < 0.8:
		return g.now + g.pickInt(1e9, 5e9, 60e9, 3600e9)
	case x < 0.95:
		return g.now + g.pickInt(3600e9, 86400e9, 2*86400e9)
	}
	return g.now + g.pickInt(7*86400e9, 30*86400e9, 400*86400e9)
}

func (g *gen) genBlock(bidx int, draining bool) {
	g.now = g.nextTime()
	blk := Block{TimeNs: g.now}
	// what will the state be after begin-block? step a clone to know statuses at tx time
	pm := g.m.Clone()
	pm.BeginBlock(g.now, nil)

	// keeper-API operations before the block
	for _, a := range pm.Auctions {
		if (a.Status == StStandby || a.Status == StStarted) && len(a.Allowed) == 0 && g.chance(0.7) {
			blk.Pre = append(blk.Pre, g.opAddAllowed(a))
		} else if (a.Status == StStandby || a.Status == StStarted) && g.chance(g.p.WCapChange) {
			if g.chance(0.5) && len(a.Allowed) > 0 {
				blk.Pre = append(blk.Pre, g.opUpdateAllowed(a))
			} else {
				blk.Pre = append(blk.Pre, g.opAddAllowed(a))
			}
		}
	}
	if g.chance(g.p.WParams) {
		ps := ParamsSpec{ExtPeriod: uint32(g.pickInt(0, 1, 2, 7, 1, 2, 365, 2000))}
		if g.chance(0.06) {
			// beyond the bound: must be refused when it is set (an end time millions of days later cannot be stored)
			ps.ExtPeriod = uint32(g.pickInt(36501, 4000000, 4294967295))
			g.intents["params_period_beyond_bound"]++
		}
		if g.chance(0.6) {
			ps.CreationFee = []Coin{{"stake", fmt.Sprint(g.in(1, 100))}}
		}
		if g.chance(0.5) {
			ps.BidFee = []Coin{{g.pick("stake", "upay"), fmt.Sprint(g.in(1, 4))}}
		}
		blk.Pre = append(blk.Pre, Op{Kind: OUpdateParams, Params: &ps})
	}
	if g.chance(0.03) {
		// invalid keeper ops
		switch g.r.Intn(3) {
		case 0:
			blk.Pre = append(blk.Pre, Op{Kind: OAddAllowed, AuctionID: uint64(len(pm.Auctions) + 3), Entries: []AllowedEntry{{Who: 0, Max: "5"}}})
		case 1:
			blk.Pre = append(blk.Pre, Op{Kind: OAddAllowed, AuctionID: 0, Entries: nil})
		default:
			blk.Pre = append(blk.Pre, Op{Kind: OUpdateAllowed, AuctionID: 0, Who: 0, Max: "0"})
		}
	}
	// apply pre ops to the planning clone (fresh clone: order pre, begin, txs)
	pm = g.m.Clone()
	for i := range blk.Pre {
		pm.ApplyOp(&blk.Pre[i])
	}
	pm.BeginBlock(g.now, nil)

	ntx := g.in(0, g.p.TxPerBlock)
	if g.p.BookBuilder && !draining {
		ntx = g.in(1, g.p.TxPerBlock+2)
	}
	if (g.p.Name == "crowd" || g.p.Name == "sprawl" || g.p.Name == "town") && !draining {
		ntx = g.p.TxPerBlock
	}
	if draining {
		ntx = 0
	}
	for i := 0; i < ntx; i++ {
		tx := g.genTx(pm)
		if tx == nil {
			continue
		}
		clampMsg(&tx.Msg)
		if g.chance(0.04) && tx.Msg.Kind != KSend {
			// bech32 may be written all upper-case: the same account, another spelling
			tx.Msg.Upper = true
			g.intents["upper_case_signer"]++
		}
		// mempool faults
		if g.chance(0.03) {
			tx.Dup = true
			g.intents["tx_dup"]++
		} else if g.chance(0.03) {
			tx.SeqDelta = int(g.pickInt(1, 2, -1))
			g.intents["tx_reorder"]++
		} else if g.chance(0.02) {
			// forged: signed by somebody else
			tx.Actor = (tx.Actor + 1) % len(g.m.Actors)
			g.intents["forged_signer"]++
		}
		blk.Txs = append(blk.Txs, *tx)
		// keep planning clone in sync
		one := Block{TimeNs: g.now, Txs: []Tx{*tx}}
		stepTxsOnly(pm, &one)
	}
	// faults
	kinds := make([]string, 0, len(g.p.Faults))
	for k := range g.p.Faults {
		kinds = append(kinds, k)
	}
	sort.Strings(kinds)
	fx := pmEffects(g.m, &blk)
	hot := len(fx.Events) > 0
	for _, k := range kinds {
		pr := g.p.Faults[k]
		if hot && (k == FCrashPre || k == FLostCommit || k == FJoinExport) {
			pr *= 4 // bias faults to blocks with in-flight state
		}
		if !g.chance(pr) {
			continue
		}
		f := Fault{Kind: k}
		switch k {
		case FBankFail:
			// place the failure inside a tx that is expected to make bank calls
			var cands []int
			for ti, t := range blk.Txs {
				if (t.Note == "valid" || t.Note == "auctioneer") && t.SeqDelta == 0 && t.Msg.Who == t.Actor && t.Msg.Kind != KSend {
					cands = append(cands, ti)
				}
			}
			if len(cands) == 0 {
				continue
			}
			f.Tx = cands[g.r.Intn(len(cands))]
			f.K = g.r.Intn(2)
		case FOEHit:
			if faultOf(&blk, FOEAbort) != nil {
				continue
			}
		case FOEAbort:
			if faultOf(&blk, FOEHit) != nil {
				continue
			}
		}
		blk.Faults = append(blk.Faults, f)
	}
	g.emit(blk)
}

func pmEffects(m *Model, blk *Block) BlockEffects {
	c := m.Clone()
	for i := range blk.Pre {
		c.ApplyOp(&blk.Pre[i])
	}
	return c.BeginBlock(blk.TimeNs, nil)
}

func stepTxsOnly(m *Model, blk *Block) {
	for i := range blk.Txs {
		tx := &blk.Txs[i]
		signer := m.actor(tx.Actor)
		if tx.SeqDelta != 0 || tx.Msg.Who != tx.Actor {
			continue
		}
		if r := m.ApplyMsg(&tx.Msg); !r.Basic {
			m.Seq[signer]++
		}
	}
}

func (g *gen) drain() {
	for i := 0; i < 150; i++ {
		ins := g.instants()
		if len(ins) == 0 {
			return
		}
		t := ins[0]
		if g.chance(0.2) && len(ins) > 1 {
			t = ins[g.r.Intn(len(ins))]
		}
		t += g.pickInt(0, 0, 1, 1e9)
		if t <= g.now {
			t = g.now + 1
		}
		g.now = t
		blk := Block{TimeNs: t}
		fx := pmEffects(g.m, &blk)
		if len(fx.Events) > 0 {
			if g.chance(0.08) {
				blk.Faults = append(blk.Faults, Fault{Kind: FCrashPre})
			}
			if g.p.Faults[FJoinExport] > 0 && g.chance(0.1) {
				blk.Faults = append(blk.Faults, Fault{Kind: FJoinExport})
			}
		}
		g.emit(blk)
	}
}

func (g *gen) opAddAllowed(a *MAuction) Op {
	op := Op{Kind: OAddAllowed, AuctionID: a.ID}
	n := g.in(1, len(g.m.Actors))
	perm := g.r.Perm(len(g.m.Actors))
	for _, who := range perm[:n] {
		op.Entries = append(op.Entries, AllowedEntry{Who: who, Max: g.capFor(a).String()})
	}
	if g.chance(0.04) {
		op.Entries[g.r.Intn(len(op.Entries))].Upper = true
		g.intents["upper_case_allow_list_entry"]++
	}
	if g.chance(0.04) {
		// the same account twice in one call, under the other spelling and with another cap: entries are
		// stored in list order, the later one stands
		dup := op.Entries[g.r.Intn(len(op.Entries))]
		dup.Upper = !dup.Upper
		dup.Max = g.capFor(a).String()
		op.Entries = append(op.Entries, dup)
		g.intents["allow_list_duplicate_account"]++
	}
	if g.p.Name == "crowd" && len(a.Allowed) < 100 && g.chance(0.5) {
		// more than a hundred entries on one allow-list: outsiders (well-formed addresses of nobody in the
		// run) around the actors, so that whatever reads "the allow-list of the auction" must read all of it
		for i := 0; i < 130; i++ {
			b := make([]byte, 20)
			g.r.Read(b)
			op.Entries = append(op.Entries, AllowedEntry{Who: -2, RawAddr: sdk.AccAddress(b).String(), Max: g.capFor(a).String()})
		}
		if g.chance(0.5) {
			// and an actor once more at the end of the long list, with another cap: the later entry stands
			dup := op.Entries[0]
			dup.Max = g.capFor(a).String()
			op.Entries = append(op.Entries, dup)
			g.intents["allow_list_duplicate_in_long_list"]++
		}
		g.intents["allow_list_of_more_than_100"]++
	}
	if g.chance(0.04) {
		// one invalid entry makes the whole call fail (all or none)
		bad := AllowedEntry{Who: perm[0], Max: g.pick("0", "-5", new(big.Int).Add(a.SellAmt, bigOne).String())}
		op.Entries = append(op.Entries, bad)
	}
	return op
}

func (g *gen) capFor(a *MAuction) *big.Int {
	s := a.SellAmt
	switch g.r.Intn(6) {
	case 0:
		return new(big.Int).Set(s)
	case 1:
		return bigMax1(new(big.Int).Quo(s, big.NewInt(2)))
	case 2:
		return bigMax1(new(big.Int).Quo(s, big.NewInt(int64(g.in(3, 10)))))
	case 3:
		return big.NewInt(1)
	case 4:
		return bigMax1(new(big.Int).Sub(s, bigOne))
	}
	v := new(big.Int).Rand(g.r, s)
	return bigMax1(v)
}

func bigMax1(v *big.Int) *big.Int {
	if v.Sign() <= 0 {
		return big.NewInt(1)
	}
	return v
}

func (g *gen) opUpdateAllowed(a *MAuction) Op {
	ks := sortedKeys(a.Allowed)
	addr := ks[g.r.Intn(len(ks))]
	who := 0
	for i, x := range g.m.Actors {
		if x == addr {
			who = i
		}
	}
	c := g.capFor(a)
	if g.chance(0.2) {
		// UpdateAllowedBidder (unlike AddAllowedBidders) accepts a cap above the offered amount: a bidder
		// may then ask for more than the whole supply, and a price at which that capped demand does not
		// fit sells nothing to anybody
		switch g.r.Intn(3) {
		case 0:
			c = new(big.Int).Add(a.SellAmt, bigOne)
		case 1:
			c = new(big.Int).Mul(a.SellAmt, big.NewInt(2))
		default:
			c = new(big.Int).Add(a.SellAmt, bigMax1(new(big.Int).Quo(a.SellAmt, big.NewInt(2))))
		}
		g.intents["cap_above_supply"]++
	}
	return Op{Kind: OUpdateAllowed, AuctionID: a.ID, Who: who, Max: c.String()}
}

func (g *gen) genTx(pm *Model) *Tx {
	var open, waiting, batchOpen, fixedOpen []*MAuction
	for _, a := range pm.Auctions {
		switch a.Status {
		case StStandby:
			waiting = append(waiting, a)
		case StStarted:
			if a.Type == TypeBatch && a.MaxExtRound == 30 && a.ID%2 == 0 {
				// left without bids: with nothing matched every end time extends, so that the auction goes
				// through all of its rounds (31 end times, the documented maximum) within one history
				continue
			}
			open = append(open, a)
			if a.Type == TypeBatch {
				batchOpen = append(batchOpen, a)
			} else {
				fixedOpen = append(fixedOpen, a)
			}
		}
	}
	x := g.r.Float64()
	nA := len(pm.Auctions)
	switch {
	case nA < g.p.MaxAuctions && (nA == 0 || x < 0.12 || (g.p.Concurrent && nA < 3) || (g.p.Name == "sprawl" && x < 0.93) || (g.p.Name == "town" && x < 0.6)):
		return g.txCreate(pm)
	case x < 0.12+g.p.WAdversary:
		return g.txAdversary(pm)
	case x < 0.12+g.p.WAdversary+g.p.WForeign:
		return g.txForeign(pm)
	case x < 0.12+g.p.WAdversary+g.p.WForeign+g.p.WCancel && nA > 0:
		return g.txCancel(pm, waiting)
	case x < 0.12+g.p.WAdversary+g.p.WForeign+g.p.WCancel+g.p.WModify && len(batchOpen) > 0:
		return g.txModify(pm, batchOpen)
	}
	// operations attempted against auctions in any status (waiting, vesting, finished, cancelled)
	if nA > 0 && g.chance(0.07) {
		a := pm.Auctions[g.r.Intn(nA)]
		if a.Status != StStarted {
			g.intents[fmt.Sprintf("op_in_status_%d", a.Status)]++
			if a.Type == TypeBatch && len(a.Bids) > 0 && g.chance(0.6) {
				return g.txModify(pm, []*MAuction{a})
			}
			return g.txBid(pm, a, "status")
		}
	}
	if len(open) == 0 {
		if nA > 0 && g.chance(0.3) {
			// bid on something that is not open
			a := pm.Auctions[g.r.Intn(nA)]
			return g.txBid(pm, a, "status")
		}
		if nA < g.p.MaxAuctions {
			return g.txCreate(pm)
		}
		return nil
	}
	a := open[g.r.Intn(len(open))]
	reason := ""
	if g.chance(g.p.WInvalid) {
		reason = g.pick("price", "denom", "type", "notallowed", "allowance", "remainder", "funds", "zeroamount", "zeroprice", "noauction", "floor", "baddenom")
	}
	return g.txBid(pm, a, reason)
}

func (g *gen) someActor() int { return g.r.Intn(len(g.m.Actors)) }

func (g *gen) txCreate(pm *Model) *Tx {
	who := g.someActor()
	if g.p.Concurrent && g.chance(0.7) {
		who = 0
	}
	batch := g.chance(0.5)
	if g.p.FixedOnly {
		batch = false
	}
	if g.p.BatchOnly {
		batch = true
	}
	sell := g.pick("usell", "uatom", "denomx", "upay", "stake")
	pay := g.pick("upay", "uatom", "stake", "usell")
	for pay == sell {
		pay = g.pick("upay", "uatom", "stake")
	}
	start := g.now + g.pickInt(-3600e9, -1, 0, 0, 1, 1e9, 3600e9, 86400e9)
	if g.p.BookBuilder && g.chance(0.7) {
		start = g.now
	}
	end := start + g.pickInt(1, 1e9, 3600e9, 86400e9, 7*86400e9)
	if end < g.now {
		end = g.now + g.pickInt(1, 3600e9)
	}
	if end == g.now {
		end++ // L3: end exactly at the block time is a don't-care, not generated
	}
	far := false
	if g.p.Name != "cli" && g.chance(0.03) {
		// scheduled centuries ahead (beyond the year 2262, where Unix nanoseconds in an int64 end): legal,
		// stays waiting for the whole run, can be cancelled, accepts no bid
		far = true
		start = FarBaseNs + g.pickInt(0, 1, 1e9, 86400e9, 365*86400e9)
		end = start + g.pickInt(1, 1e9, 3600e9, 86400e9, 7*86400e9)
		g.intents["far_future_start"]++
	}
	m := Msg{Who: who, StartPrice: g.price(), SellingCoin: &Coin{sell, g.amount().String()}, PayingDenom: pay, StartNs: start, EndNs: end}
	nv := g.in(g.p.Vesting[0], g.p.Vesting[1])
	if g.chance(0.02) {
		nv = 100
	}
	if far && nv > 3 {
		nv = 3
	}
	m.Vesting = g.vesting(nv, end)
	if batch {
		m.Kind = KCreateBatch
		m.MinBidPrice = g.pick("0.1", "0.5", "1", "0.000000000000000001", "0.01")
		m.MaxExtRound = uint32(g.in(g.p.MaxRounds[0], g.p.MaxRounds[1]))
		if g.chance(0.02) || ((g.p.Name == "rounds" || g.p.Name == "genesis") && g.chance(0.05)) {
			m.MaxExtRound = 30 // the documented maximum: 31 end times
		}
		m.ExtRate = g.pick("0.05", "0.2", "0.5", "1", "0.000000000000000001", "0.333333333333333333", "0.25", "0.1",
			"0.333333333333333334", "0.666666666666666667", "0.666666666666666666", "0.142857142857142858", "0.5", "0.25",
			"1.5", "1.000000000000000001") // a rate above 1 is legal: no fall can reach it, only an empty previous round extends
		if g.chance(0.3) {
			// falls between small counts are thirds, halves and quarters: rates exactly at, one ulp above and
			// one ulp below such a fall
			m.ExtRate = g.pick("0.333333333333333334", "0.333333333333333333", "0.666666666666666667", "0.666666666666666666", "0.5", "0.25", "0.500000000000000001", "0.250000000000000001")
		}
	} else {
		m.Kind = KCreateFixed
	}
	note := "valid"
	if g.chance(g.p.WInvalid * 0.5) {
		note = g.pick("zeroprice", "zeroamount", "samedenom", "endbeforestart", "endpast", "weights", "releaseorder", "releasebeforeend", "baddenom", "toomanyrounds", "zerorate", "zerominprice", "funds", "toomanyvesting", "negweight", "releaseorder", "releaseorder")
		switch note {
		case "zeroprice":
			m.StartPrice = g.pick("0", "-1")
		case "zeroamount":
			m.SellingCoin.Amount = "0"
		case "samedenom":
			m.PayingDenom = m.SellingCoin.Denom
		case "endbeforestart":
			m.EndNs = m.StartNs - g.pickInt(0, 1, 1e9)
		case "endpast":
			m.StartNs = g.now - 7200e9
			m.EndNs = g.now - g.pickInt(1, 3600e9)
			m.Vesting = g.vesting(len(m.Vesting), m.EndNs)
		case "weights":
			if len(m.Vesting) == 0 {
				m.Vesting = g.vesting(2, end)
			}
			m.Vesting[0].Weight = g.pick("0.000000000000000001", "0.9", "1")
			if len(m.Vesting) == 1 {
				m.Vesting[0].Weight = "0.5"
			}
		case "negweight":
			m.Vesting = []VSched{{end + 10, "-0.5"}, {end + 20, "1.5"}}
		case "releaseorder":
			m.Vesting = g.vesting(3, end)
			m.Vesting[1].ReleaseNs = m.Vesting[0].ReleaseNs - g.pickInt(0, 0, 1) // mostly the same instant twice
		case "releasebeforeend":
			m.Vesting = g.vesting(2, end)
			m.Vesting[0].ReleaseNs = end - g.pickInt(0, 1)
		case "baddenom":
			if g.chance(0.5) {
				m.PayingDenom = g.pick("x", "1abc", "")
			} else {
				m.SellingCoin.Denom = g.pick("x", "1abc")
			}
		case "toomanyrounds":
			if batch {
				m.MaxExtRound = 31
			} else {
				note = "valid"
			}
		case "zerorate":
			if batch {
				m.ExtRate = g.pick("0", "-0.1")
			} else {
				note = "valid"
			}
		case "zerominprice":
			if batch {
				m.MinBidPrice = "0"
			} else {
				note = "valid"
			}
		case "funds":
			m.SellingCoin.Amount = new(big.Int).Add(pm.bal(pm.actor(who), m.SellingCoin.Denom), bigOne).String()
		case "toomanyvesting":
			m.Vesting = g.vesting(101, end)
		}
	}
	g.intents["create:"+note]++
	return &Tx{Actor: who, Msg: m, Note: note}
}

func (g *gen) vesting(n int, end int64) []VSched {
	if n == 0 {
		return nil
	}
	// weights with 18 decimals summing to exactly one
	ws := make([]*big.Int, n)
	rem := new(big.Int).Set(decUnit)
	for i := 0; i < n-1; i++ {
		maxw := new(big.Int).Sub(rem, big.NewInt(int64(n-1-i)))
		var w *big.Int
		switch g.r.Intn(4) {
		case 0:
			w = big.NewInt(1) // 1e-18
		case 1:
			w = new(big.Int).Quo(decUnit, big.NewInt(int64(n)))
		default:
			w = new(big.Int).Rand(g.r, maxw)
		}
		if w.Sign() <= 0 {
			w = big.NewInt(1)
		}
		if w.Cmp(maxw) > 0 {
			w = maxw
		}
		ws[i] = w
		rem.Sub(rem, w)
	}
	ws[n-1] = rem
	out := make([]VSched, n)
	t := end
	for i := 0; i < n; i++ {
		t += g.pickInt(1, 1, 1e9, 3600e9, 86400e9, 30*86400e9)
		out[i] = VSched{ReleaseNs: t, Weight: decString(ws[i])}
	}
	return out
}

func (g *gen) allowedActors(pm *Model, a *MAuction) []int {
	var out []int
	for i, addr := range pm.Actors {
		if _, ok := a.Allowed[addr]; ok {
			out = append(out, i)
		}
	}
	return out
}

func (g *gen) txBid(pm *Model, a *MAuction, reason string) *Tx {
	al := g.allowedActors(pm, a)
	who := g.someActor()
	if len(al) > 0 && reason != "notallowed" {
		who = al[g.r.Intn(len(al))]
	}
	if reason == "notallowed" {
		for try := 0; try < 5; try++ {
			if _, ok := a.Allowed[pm.actor(who)]; !ok {
				break
			}
			who = g.someActor()
		}
	}
	m := Msg{Kind: KPlaceBid, Who: who, AuctionID: a.ID}
	addr := pm.actor(who)
	cap := a.Allowed[addr]
	if cap == nil {
		cap = big.NewInt(5)
	}
	if a.Type == TypeFixed {
		m.BidType = BidFixed
		m.Price = decTrim(a.StartPrice)
		used := new(big.Int)
		for _, b := range a.Bids {
			if b.Bidder == addr {
				q, _ := bidQtyRes(a, b.Type, b.Denom, b.Amt, b.Price)
				used.Add(used, q)
			}
		}
		room := new(big.Int).Sub(cap, used)
		if room.Cmp(a.Remaining) > 0 {
			room = new(big.Int).Set(a.Remaining)
		}
		// quantity wanted
		var q *big.Int
		switch g.r.Intn(5) {
		case 0:
			q = new(big.Int).Set(room) // exactly exhausts allowance or remainder
		case 1:
			q = big.NewInt(1)
		case 2:
			q = big.NewInt(0) // converts to zero coins (paying-denominated only)
		default:
			if room.Sign() > 0 {
				q = new(big.Int).Rand(g.r, new(big.Int).Add(room, bigOne))
			} else {
				q = big.NewInt(1)
			}
		}
		if reason == "remainder" {
			q = new(big.Int).Add(a.Remaining, bigOne)
		}
		if reason == "allowance" {
			q = new(big.Int).Add(new(big.Int).Sub(cap, used), bigOne)
		}
		if g.chance(0.5) {
			// selling-denominated
			if q.Sign() == 0 {
				q = big.NewInt(1)
			}
			m.Coin = &Coin{a.SellDenom, q.String()}
		} else {
			// paying-denominated: worth between q*p (ceil) and just below (q+1)*p
			lo := ceilMulDec(q, a.StartPrice)
			hi := ceilMulDec(new(big.Int).Add(q, bigOne), a.StartPrice)
			w := lo
			if hi.Cmp(lo) > 0 && g.chance(0.5) {
				w = new(big.Int).Add(lo, new(big.Int).Rand(g.r, new(big.Int).Sub(hi, lo)))
			}
			if g.chance(0.25) {
				// the largest worth that still buys q: worth/price lands just below q+1, where the rounding
				// of the 18th decimal of the quotient decides between q and q+1
				if v := floorMulDec(new(big.Int).Add(q, bigOne), a.StartPrice); v.Cmp(lo) >= 0 && new(big.Int).Mul(v, decUnit).Cmp(new(big.Int).Mul(new(big.Int).Add(q, bigOne), a.StartPrice)) < 0 {
					w = v
					g.intents["fixed_worth_just_below_next_coin"]++
				}
			}
			if w.Sign() == 0 {
				w = big.NewInt(1)
			}
			m.Coin = &Coin{a.PayDenom, w.String()}
		}
	} else {
		if g.chance(0.5) {
			m.BidType = BidWorth
		} else {
			m.BidType = BidMany
		}
		// few distinct price levels with duplicates
		levels := []string{"1", "1.5", "2", "0.75", "3", "0.333333333333333333", "1.000000000000000001", "5", "0.666666666666666667", "4.666666666666666667", "0.7", "0.9", "2.666666666666666667"}
		if g.chance(0.2) {
			m.Price = g.price()
		} else {
			m.Price = levels[g.r.Intn(len(levels))]
		}
		p := mustDec(m.Price)
		if p.Cmp(a.MinBidPrice) < 0 && reason != "floor" {
			m.Price = decTrim(new(big.Int).Add(a.MinBidPrice, big.NewInt(int64(g.in(0, 3)))))
			p = mustDec(m.Price)
		}
		// quantity relative to cap and supply
		var q *big.Int
		switch g.r.Intn(6) {
		case 0:
			q = new(big.Int).Set(cap)
		case 1:
			q = big.NewInt(1)
		case 2:
			q = bigMax1(new(big.Int).Quo(a.SellAmt, big.NewInt(int64(g.in(2, 5)))))
		case 3:
			q = big.NewInt(0) // dust worth bid
		default:
			q = new(big.Int).Rand(g.r, new(big.Int).Add(cap, bigOne))
		}
		if q.Cmp(cap) > 0 {
			q = new(big.Int).Set(cap)
		}
		nearInt := false
		if g.chance(0.2) {
			// quantities whose product with the price lands within 1e-15 of an integer: the 18th-decimal
			// rounding of a quotient or product decides on which side it falls
			for k := int64(1); k <= 12; k++ {
				r := new(big.Int).Mod(new(big.Int).Mul(big.NewInt(k), p), decUnit)
				if r.Sign() != 0 && (r.Cmp(big.NewInt(1000)) < 0 || new(big.Int).Sub(decUnit, r).Cmp(big.NewInt(1000)) < 0) && big.NewInt(k).Cmp(cap) <= 0 {
					q = big.NewInt(k)
					nearInt = true
					g.intents["near_integer_product"]++
					break
				}
			}
		}
		if reason == "allowance" {
			q = new(big.Int).Add(cap, bigOne)
		}
		if m.BidType == BidMany {
			if q.Sign() == 0 {
				q = big.NewInt(1)
			}
			m.Coin = &Coin{a.SellDenom, q.String()}
		} else {
			lo := ceilMulDec(q, p)
			hi := ceilMulDec(new(big.Int).Add(q, bigOne), p)
			w := lo
			vr := g.r.Intn(4)
			if nearInt {
				vr = 1 + g.r.Intn(2)
			}
			switch vr {
			case 0:
				if hi.Cmp(lo) > 0 {
					w = new(big.Int).Add(lo, new(big.Int).Rand(g.r, new(big.Int).Sub(hi, lo)))
				}
			case 1:
				// floor(q*p): the quotient worth/price lands just below the integer q
				w = floorMulDec(q, p)
			}
			if w.Sign() == 0 {
				w = big.NewInt(1)
				if p.Cmp(decUnit) > 0 {
					g.intents["dust_worth_bid"]++
				}
			}
			m.Coin = &Coin{a.PayDenom, w.String()}
		}
	}
	switch reason {
	case "price":
		if a.Type == TypeFixed {
			m.Price = decTrim(new(big.Int).Add(a.StartPrice, big.NewInt(g.pickInt(1, -1, 1000))))
			if mustDec(m.Price).Sign() <= 0 {
				m.Price = "9"
			}
		}
	case "floor":
		if a.Type == TypeBatch {
			fl := new(big.Int).Sub(a.MinBidPrice, bigOne)
			if fl.Sign() > 0 {
				m.Price = decTrim(fl)
			}
		}
	case "denom":
		m.Coin.Denom = "denomx"
		if a.SellDenom == "denomx" || a.PayDenom == "denomx" {
			m.Coin.Denom = "stake"
			if a.SellDenom == "stake" || a.PayDenom == "stake" {
				m.Coin.Denom = "uatom"
			}
		}
		if a.Type == TypeBatch && g.chance(0.5) {
			// the other denomination of the pair: wrong for this bid type
			if m.BidType == BidWorth {
				m.Coin.Denom = a.SellDenom
			} else {
				m.Coin.Denom = a.PayDenom
			}
		}
	case "type":
		if a.Type == TypeFixed {
			m.BidType = int32(g.pickInt(BidWorth, BidMany, 0, 7))
		} else {
			m.BidType = int32(g.pickInt(BidFixed, 0, 9))
		}
	case "funds":
		// more than the bidder has
		have := pm.bal(addr, a.PayDenom)
		big1 := new(big.Int).Add(have, bigOne)
		if a.Type == TypeFixed || m.BidType == BidWorth {
			m.Coin = &Coin{a.PayDenom, big1.String()}
		}
	case "zeroamount":
		m.Coin.Amount = "0"
	case "zeroprice":
		m.Price = g.pick("0", "-1")
	case "noauction":
		m.AuctionID = uint64(len(pm.Auctions) + g.in(0, 3))
	case "baddenom":
		m.Coin.Denom = g.pick("x", "1a", "")
	}
	note := reason
	if note == "" {
		note = "valid"
	}
	g.intents["bid:"+note]++
	return &Tx{Actor: who, Msg: m, Note: note}
}

func decTrim(d *big.Int) string { return decString(d) }

func (g *gen) txModify(pm *Model, batchOpen []*MAuction) *Tx {
	a := batchOpen[g.r.Intn(len(batchOpen))]
	if len(a.Bids) == 0 {
		return g.txBid(pm, a, "")
	}
	b := a.Bids[g.r.Intn(len(a.Bids))]
	who := 0
	for i, x := range pm.Actors {
		if x == b.Bidder {
			who = i
		}
	}
	m := Msg{Kind: KModifyBid, Who: who, AuctionID: a.ID, BidID: b.ID}
	dp := g.pickInt(0, 0, 1, 1, 500000000000000000, 1000000000000000000, -1)
	da := g.pickInt(0, 0, 1, 1, 2, 7, -1)
	if dp == 0 && da == 0 && g.chance(0.7) {
		da = 1
	}
	np := new(big.Int).Add(b.Price, big.NewInt(dp))
	na := new(big.Int).Add(b.Amt, big.NewInt(da))
	if g.scale != "tiny" && da > 0 && g.chance(0.5) {
		na = new(big.Int).Add(b.Amt, g.amount())
	}
	note := "valid"
	if dp < 0 || da < 0 {
		note = "lower"
	}
	if dp == 0 && da == 0 {
		note = "same"
	}
	if np.Sign() <= 0 {
		np = big.NewInt(1)
	}
	if na.Sign() <= 0 {
		na = big.NewInt(0)
		note = "zeroamount"
	}
	m.Price = decString(np)
	m.Coin = &Coin{b.Denom, na.String()}
	// a stranger who is not on this auction's allow-list but holds the bid with the same number in another
	// auction (bid numbers are per auction): tried whenever such an account exists
	twin := -1
	for cand := range pm.Actors {
		addr := pm.actor(cand)
		if cand == who {
			continue
		}
		if _, listed := a.Allowed[addr]; listed {
			continue
		}
		for _, oa := range pm.Auctions {
			if oa.ID == a.ID {
				continue
			}
			for _, ob := range oa.Bids {
				if ob.ID == b.ID && ob.Bidder == addr {
					twin = cand
				}
			}
		}
	}
	if twin >= 0 && g.chance(0.35) {
		m.Who = twin
		g.intents["modify_by_unlisted_twin"]++
		g.intents["modify:notowner"]++
		return &Tx{Actor: m.Who, Msg: m, Note: "notowner"}
	}
	if g.chance(g.p.WInvalid * 0.6) {
		switch g.r.Intn(5) {
		case 0:
			m.Who = (who + 1) % len(pm.Actors)
			// prefer a stranger who is not on this auction's allow-list (a bid taken over by such an
			// account would be recorded for somebody the allow-list does not contain) and, among those,
			// one who holds a bid with the same number in another auction (bid ids are per auction)
			best := -1
			for off := 1; off < len(pm.Actors); off++ {
				cand := (who + off) % len(pm.Actors)
				addr := pm.actor(cand)
				if _, listed := a.Allowed[addr]; listed {
					continue
				}
				if best < 0 {
					best = cand
				}
				for _, oa := range pm.Auctions {
					if oa.ID == a.ID {
						continue
					}
					for _, ob := range oa.Bids {
						if ob.ID == b.ID && ob.Bidder == addr {
							best = cand
						}
					}
				}
			}
			if best >= 0 && g.chance(0.7) {
				m.Who = best
				g.intents["modify_by_unlisted_stranger"]++
			}
			note = "notowner"
		case 1:
			if b.Denom == a.PayDenom {
				m.Coin.Denom = a.SellDenom
			} else {
				m.Coin.Denom = a.PayDenom
			}
			note = "denom"
		case 2:
			m.BidID = uint64(len(a.Bids) + g.in(1, 3))
			note = "nobid"
		case 3:
			m.AuctionID = uint64(len(pm.Auctions) + 1)
			note = "noauction"
		case 4:
			m.Coin.Amount = new(big.Int).Add(pm.bal(b.Bidder, a.PayDenom), new(big.Int).Add(b.Amt, bigOne)).String()
			note = "funds"
		}
	}
	g.intents["modify:"+note]++
	return &Tx{Actor: m.Who, Msg: m, Note: note}
}

func (g *gen) txCancel(pm *Model, waiting []*MAuction) *Tx {
	var a *MAuction
	if len(waiting) > 0 && g.chance(0.7) {
		a = waiting[g.r.Intn(len(waiting))]
	} else {
		a = pm.Auctions[g.r.Intn(len(pm.Auctions))]
	}
	who := 0
	for i, x := range pm.Actors {
		if x == a.Auctioneer {
			who = i
		}
	}
	note := "auctioneer"
	if g.chance(0.3) {
		who = (who + 1 + g.r.Intn(len(pm.Actors)-1)) % len(pm.Actors)
		note = "other"
	}
	id := a.ID
	if g.chance(0.05) {
		id = uint64(len(pm.Auctions) + 2)
		note = "noauction"
	}
	g.intents["cancel:"+note]++
	return &Tx{Actor: who, Msg: Msg{Kind: KCancel, Who: who, AuctionID: id}, Note: note}
}

func (g *gen) txAdversary(pm *Model) *Tx {
	who := g.someActor()
	if g.chance(0.8) && len(pm.Auctions) > 0 {
		a := pm.Auctions[g.r.Intn(len(pm.Auctions))]
		g.intents["adversary:self_allow"]++
		return &Tx{Actor: who, Msg: Msg{Kind: KAddAllowed, Who: who, AuctionID: a.ID, Allowed: &AllowedEntry{Who: who, Max: g.capFor(a).String()}}, Note: "self-allow-list"}
	}
	g.intents["adversary:params"]++
	ps := ParamsSpec{ExtPeriod: 0}
	return &Tx{Actor: who, Msg: Msg{Kind: KUpdParams, Who: who, Params: &ps}, Note: "user-update-params"}
}

func (g *gen) txForeign(pm *Model) *Tx {
	who := g.someActor()
	n := len(pm.Auctions)
	id := uint64(g.in(0, n+1))
	kind := g.pick("selling", "paying", "vesting")
	denom := g.pick(g.denoms...)
	if int(id) < n && g.chance(0.7) {
		a := pm.Auctions[id]
		if kind == "selling" {
			denom = a.SellDenom
		} else {
			denom = a.PayDenom
		}
	}
	// a third party tops up the selling escrow of an auction that is still waiting: what a later
	// cancellation returns is the whole escrow balance
	var waiting []*MAuction
	for _, a := range pm.Auctions {
		if a.Status == StStandby {
			waiting = append(waiting, a)
		}
	}
	if len(waiting) > 0 && g.chance(0.35) {
		a := waiting[g.r.Intn(len(waiting))]
		id, kind, denom = a.ID, "selling", a.SellDenom
		g.intents["foreign:selling_of_waiting"]++
	}
	amt := g.amount()
	if g.chance(0.1) {
		g.intents["foreign:actor"]++
		return &Tx{Actor: who, Msg: Msg{Kind: KSend, Who: who, ToKind: "actor", ToActor: g.someActor(), Coins: []Coin{{denom, amt.String()}}}, Note: "transfer"}
	}
	g.intents["foreign:"+kind]++
	return &Tx{Actor: who, Msg: Msg{Kind: KSend, Who: who, ToKind: kind, ToAuction: id, Coins: []Coin{{denom, amt.String()}}}, Note: "foreign-deposit"}
}

var maxAmt = new(big.Int).Sub(new(big.Int).Lsh(big.NewInt(1), 256), big.NewInt(1))

func clampCoin(c *Coin) {
	if c == nil {
		return
	}
	if v, ok := new(big.Int).SetString(c.Amount, 10); ok && v.Cmp(maxAmt) > 0 {
		c.Amount = maxAmt.String()
	}
}

// clampMsg keeps every amount encodable (sdk Int is 256 bits).
func clampMsg(m *Msg) {
	clampCoin(m.Coin)
	clampCoin(m.SellingCoin)
	for i := range m.Coins {
		clampCoin(&m.Coins[i])
	}
}
