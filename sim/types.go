package sim

// Schedule: the unit of execution, replay and shrinking. Every choice a run
// makes is in here; the executor draws nothing.

type Coin struct {
	Denom  string `json:"d"`
	Amount string `json:"a"`
}

type VSched struct {
	ReleaseNs int64  `json:"rel"`
	Weight    string `json:"w"` // 18-decimal string
}

type AllowedEntry struct {
	Who     int    `json:"who"`           // actor index; -1 = use RawAddr (malformed); -2 = RawAddr is a well-formed address of nobody in the run
	RawAddr string `json:"raw,omitempty"` // used when Who == -1 (malformed address)
	Max     string `json:"max"`           // integer string (may be 0 / negative for invalid cases)
	Upper   bool   `json:"uc,omitempty"`  // the address is spelt in upper case (legal bech32, same account)
}

type ParamsSpec struct {
	CreationFee []Coin `json:"cfee"`
	BidFee      []Coin `json:"bfee"`
	ExtPeriod   uint32 `json:"ext"`
}

// Msg kinds
const (
	KCreateFixed = "create_fixed"
	KCreateBatch = "create_batch"
	KCancel      = "cancel"
	KPlaceBid    = "place_bid"
	KModifyBid   = "modify_bid"
	KAddAllowed  = "msg_add_allowed"   // MsgAddAllowedBidder through a signed tx (must always be rejected)
	KUpdParams   = "msg_update_params" // MsgUpdateParams signed by a user (must always be rejected)
	KSend        = "bank_send"         // plain x/bank MsgSend (third-party deposits, transfers between actors)
)

type Msg struct {
	Kind  string `json:"k"`
	Who   int    `json:"who"`          // actor named in the message's signer field
	Upper bool   `json:"uc,omitempty"` // the signer field spells the address in upper case (legal bech32, same account)

	AuctionID uint64 `json:"auc,omitempty"`
	BidID     uint64 `json:"bid,omitempty"`
	BidType   int32  `json:"bt,omitempty"`
	Price     string `json:"p,omitempty"`
	Coin      *Coin  `json:"c,omitempty"`

	StartPrice  string   `json:"sp,omitempty"`
	MinBidPrice string   `json:"mbp,omitempty"`
	SellingCoin *Coin    `json:"sc,omitempty"`
	PayingDenom string   `json:"pd,omitempty"`
	Vesting     []VSched `json:"vs,omitempty"`
	MaxExtRound uint32   `json:"mer,omitempty"`
	ExtRate     string   `json:"rate,omitempty"`
	StartNs     int64    `json:"st,omitempty"`
	EndNs       int64    `json:"et,omitempty"`

	Allowed *AllowedEntry `json:"ab,omitempty"`
	Params  *ParamsSpec   `json:"params,omitempty"`

	// bank send target
	ToKind    string `json:"tok,omitempty"` // "selling" | "paying" | "vesting" | "actor"
	ToAuction uint64 `json:"toa,omitempty"`
	ToActor   int    `json:"toact,omitempty"`
	Coins     []Coin `json:"coins,omitempty"`
}

type Tx struct {
	Actor    int    `json:"actor"` // who signs
	Msg      Msg    `json:"msg"`
	SeqDelta int    `json:"seqd,omitempty"` // signed with expected sequence + SeqDelta (mempool reorder / stale tx)
	Dup      bool   `json:"dup,omitempty"`  // the same signed bytes are included a second time right after
	Note     string `json:"note,omitempty"` // generator's intent (valid / which single reason invalid), informational
	// RawMsgJSON: when set, the message put on chain is decoded from this JSON (as emitted by the
	// node binary with --generate-only) instead of being built from Msg (C20, CLI in the loop).
	RawMsgJSON string `json:"raw_msg_json,omitempty"`
}

// Keeper-API operations made by "another module" between blocks.
const (
	OAddAllowed    = "add_allowed_bidders"
	OUpdateAllowed = "update_allowed_bidder"
	OUpdateParams  = "update_params" // MsgUpdateParams as the authority
)

type Op struct {
	Kind      string         `json:"k"`
	AuctionID uint64         `json:"auc,omitempty"`
	Entries   []AllowedEntry `json:"entries,omitempty"`
	Who       int            `json:"who,omitempty"`
	Max       string         `json:"max,omitempty"`
	Params    *ParamsSpec    `json:"params,omitempty"`
}

// Fault kinds
const (
	FCrashPre   = "crash_pre"     // crash after FinalizeBlock, before Commit: restart from disk, re-execute the block
	FCrashPost  = "crash_post"    // crash after Commit: restart from disk
	FLostCommit = "lost_commit"   // disk rolled back to before this block's Commit after it "completed"; block replayed
	FOEAbort    = "oe_abort"      // ProcessProposal of a different block first (optimistic execution aborted)
	FOEHit      = "oe_hit"        // ProcessProposal of the same block first (optimistic execution result reused)
	FBankFail   = "bank_fail"     // K-th bank/distr call of tx Tx fails
	FHookFail   = "hook_fail"     // listener Listener fails on its N-th call of Method
	FJoinExport = "join_export"   // a new replica is started from this node's exported genesis after this block
	FQuery      = "query_noise"   // gRPC queries between FinalizeBlock and Commit must see pre-block state
	FDiscarded  = "discarded_ops" // keeper ops on a discarded branch + Simulate of txs: executed-but-rolled-back work must leave no trace
	FCheckTx    = "checktx_noise" // CheckTx traffic before the block must not influence FinalizeBlock
)

type Fault struct {
	Kind     string `json:"k"`
	Tx       int    `json:"tx,omitempty"`
	K        int    `json:"n,omitempty"`
	Method   string `json:"m,omitempty"`
	Listener int    `json:"l,omitempty"`
}

type Block struct {
	TimeNs int64   `json:"t"`
	Pre    []Op    `json:"pre,omitempty"`
	Txs    []Tx    `json:"txs,omitempty"`
	Faults []Fault `json:"faults,omitempty"`
}

type Config struct {
	Actors    int                       `json:"actors"`
	Balances  map[string]string         `json:"balances"`       // denom -> amount each actor starts with
	Poor      map[int]map[string]string `json:"poor,omitempty"` // per-actor override balances
	Params    ParamsSpec                `json:"params"`
	Replicas  int                       `json:"replicas"`  // shadow replicas fed the same log (C14)
	Listeners int                       `json:"listeners"` // number of hook listeners registered (C17); 0 = none
	Profile   string                    `json:"profile"`
}

type Schedule struct {
	Seed      int64   `json:"seed"`
	Cfg       Config  `json:"cfg"`
	GenesisNs int64   `json:"genesis_ns"`
	Blocks    []Block `json:"blocks"`
}

// Violation reported by an oracle.
type Violation struct {
	Property string `json:"property"`
	Rule     string `json:"rule"`   // stable oracle rule id
	Key      string `json:"key"`    // structural detail used for known-finding fingerprints (field / call site / input class)
	Detail   string `json:"detail"` // human-readable
	Block    int    `json:"block"`
	Tx       int    `json:"tx"` // -1 = block level
}
