package sim

// C17: every hook fires once per listener with the real values, before the
// change it announces is stored, and any listener can veto.

import (
	"cosmossdk.io/collections"
	"fmt"
	"math/big"
	"strings"
)

func expVS(vs []VSched) string {
	var sb strings.Builder
	for _, v := range vs {
		fmt.Fprintf(&sb, "(%d,%s)", v.ReleaseNs, decString(mustDec(v.Weight)))
	}
	return sb.String()
}

func expMap(m map[string]*big.Int) string {
	var sb strings.Builder
	for _, k := range sortedKeys(m) {
		if m[k].Sign() == 0 {
			continue
		}
		fmt.Fprintf(&sb, "%s=%s;", k, m[k].String())
	}
	return sb.String()
}

type expHook struct {
	Method string
	Args   string
	Pre    string // expected observation of the store at call time ("" = not checked)
}

func (e *execState) hv(bo *blockObs, rule, key, detail string, tx int) {
	e.res.addV("C17", rule, key, detail, bo.Idx, tx)
}

// verifyOp checks the calls recorded for one successful operation against the expected hook list.
func (e *execState) verifyOp(bo *blockObs, what string, tx int, calls []HookCall, exp []expHook) {
	L := e.s.Cfg.Listeners
	st := e.res.Stats
	// expected sequence: for each hook in order, listeners 0..L-1
	idx := 0
	for _, x := range exp {
		for l := 0; l < L; l++ {
			if idx >= len(calls) {
				e.hv(bo, "hook.missing_call", x.Method, fmt.Sprintf("%s: listener %d was not called for %s (got %d calls, expected %d)", what, l, x.Method, len(calls), len(exp)*L), tx)
				return
			}
			c := calls[idx]
			idx++
			if c.Method != x.Method || c.Listener != l {
				e.hv(bo, "hook.order", x.Method, fmt.Sprintf("%s: call %d is %s by listener %d, expected %s by listener %d", what, idx-1, c.Method, c.Listener, x.Method, l), tx)
				return
			}
			if c.Args != x.Args {
				e.hv(bo, "hook.values", x.Method, fmt.Sprintf("%s: %s was called with %q, the operation used %q", what, x.Method, c.Args, x.Args), tx)
			}
			if x.Pre != "" && !strings.HasPrefix(c.PreStored, x.Pre) {
				e.hv(bo, "hook.after_change", x.Method, fmt.Sprintf("%s: when %s ran the store showed %q, expected %q (the announced change must not be stored yet)", what, x.Method, c.PreStored, x.Pre), tx)
			}
			st.Probes["hook_calls_verified"]++
		}
	}
	if idx != len(calls) {
		e.hv(bo, "hook.extra_call", calls[idx].Method, fmt.Sprintf("%s: %d unexpected extra hook call(s), first %s by listener %d", what, len(calls)-idx, calls[idx].Method, calls[idx].Listener), tx)
	}
}

// afterFailure: once listener j failed for a method, no later listener may be called for that operation.
func (e *execState) afterFailure(bo *blockObs, what string, tx int, calls []HookCall) {
	for i, c := range calls {
		if !c.Injected {
			continue
		}
		for _, d := range calls[i+1:] {
			e.hv(bo, "hook.called_after_failure", c.Method, fmt.Sprintf("%s: listener %d failed in %s but %s was still called on listener %d", what, c.Listener, c.Method, d.Method, d.Listener), tx)
			return
		}
		// listeners before j must have been called
		want := 0
		for _, p := range calls[:i] {
			if p.Method == c.Method {
				want++
			}
		}
		if want != c.Listener {
			e.hv(bo, "hook.order", c.Method, fmt.Sprintf("%s: listener %d failed in %s after %d earlier listener call(s)", what, c.Listener, c.Method, want), tx)
		}
		e.res.Stats.EnumPairs[fmt.Sprintf("%s|L=%d|fail@%d|%s", c.Method, e.s.Cfg.Listeners, c.Listener, strings.SplitN(what, " ", 2)[0])] = true
	}
}

func (e *execState) expForMsg(bo *blockObs, tx *Tx) []expHook {
	m := &tx.Msg
	who := e.addrOf(m.Who)
	mp := bo.MPrev
	switch m.Kind {
	case KCreateFixed:
		id := e.createdID(bo, tx)
		base := fmt.Sprintf("%s|%s|%s%s|%s|%s|%d|%d", who, decString(mustDec(m.StartPrice)), m.SellingCoin.Amount, m.SellingCoin.Denom, m.PayingDenom, expVS(m.Vesting), m.StartNs, m.EndNs)
		return []expHook{{"BeforeFixedPriceAuctionCreated", base, "stored=false"}, {"AfterFixedPriceAuctionCreated", fmt.Sprintf("%d|%s", id, base), "stored=true"}}
	case KCreateBatch:
		id := e.createdID(bo, tx)
		base := fmt.Sprintf("%s|%s|%s|%s%s|%s|%s|%d|%s|%d|%d", who, decString(mustDec(m.StartPrice)), decString(mustDec(m.MinBidPrice)), m.SellingCoin.Amount, m.SellingCoin.Denom, m.PayingDenom, expVS(m.Vesting), m.MaxExtRound, decString(mustDec(m.ExtRate)), m.StartNs, m.EndNs)
		return []expHook{{"BeforeBatchAuctionCreated", base, "stored=false"}, {"AfterBatchAuctionCreated", fmt.Sprintf("%d|%s", id, base), "stored=true"}}
	case KCancel:
		return []expHook{{"BeforeAuctionCanceled", fmt.Sprintf("%d|%s", m.AuctionID, who), fmt.Sprintf("status=%d", StStandby)}}
	case KPlaceBid:
		bid := e.placedBidID(bo, tx)
		return []expHook{{"BeforeBidPlaced", fmt.Sprintf("%d|%d|%s|%d|%s|%s%s", m.AuctionID, bid, who, m.BidType, decString(mustDec(m.Price)), m.Coin.Amount, m.Coin.Denom), "stored=false"}}
	case KModifyBid:
		bt := int32(0)
		_ = mp
		if a := e.model.auction(m.AuctionID); a != nil && m.BidID >= 1 && m.BidID <= uint64(len(a.Bids)) {
			bt = a.Bids[m.BidID-1].Type
		}
		return []expHook{{"BeforeBidModified", fmt.Sprintf("%d|%d|%s|%d|%s|%s%s", m.AuctionID, m.BidID, who, bt, decString(mustDec(m.Price)), m.Coin.Amount, m.Coin.Denom), "stored=false"}}
	}
	return nil
}

// createdID / placedBidID: the id the model assigned to the object this tx created.
func (e *execState) createdID(bo *blockObs, tx *Tx) uint64 {
	n := uint64(len(bo.MPrev.Auctions))
	for i := range bo.Blk.Txs {
		t := &bo.Blk.Txs[i]
		if t == tx {
			return n
		}
		if (t.Msg.Kind == KCreateFixed || t.Msg.Kind == KCreateBatch) && e.txAccepted(bo, i) {
			n++
		}
	}
	return n
}

func (e *execState) txAccepted(bo *blockObs, idx int) bool {
	for _, o := range bo.Txs {
		if o.Idx == idx && o.Copy == 0 {
			return o.Model.OK
		}
	}
	return false
}

func (e *execState) placedBidID(bo *blockObs, tx *Tx) uint64 {
	var n uint64
	if a := bo.MPrev.auction(tx.Msg.AuctionID); a != nil {
		n = uint64(len(a.Bids))
	}
	for i := range bo.Blk.Txs {
		t := &bo.Blk.Txs[i]
		if t == tx {
			return n + 1
		}
		if t.Msg.Kind == KPlaceBid && t.Msg.AuctionID == tx.Msg.AuctionID && e.txAccepted(bo, i) {
			n++
		}
	}
	return n + 1
}

func (e *execState) checkHooksBlock(bo *blockObs, br BlockResult, fx BlockEffects, halted bool) {
	L := e.s.Cfg.Listeners
	if L == 0 {
		return
	}
	seen := map[string]bool{}
	for _, h := range br.Hooks {
		if !seen[h.Method] {
			seen[h.Method] = true
			e.res.HookSites = append(e.res.HookSites, HookSite{Block: bo.Idx, Method: h.Method, Phase: h.Phase})
		}
	}
	// ---- keeper operations
	byPre := map[int][]HookCall{}
	var begin []HookCall
	for _, h := range br.Hooks {
		switch h.Phase {
		case "pre":
			var i int
			fmt.Sscanf(h.TxHash, "pre:%d", &i)
			byPre[i] = append(byPre[i], h)
		case "begin":
			begin = append(begin, h)
		}
	}
	if halted {
		e.afterFailure(bo, "settlement", -1, begin)
		return
	}
	for i, po := range bo.PreRes {
		calls := byPre[i]
		what := fmt.Sprintf("%s keeper op %d", po.Op.Kind, i)
		e.afterFailure(bo, what, -1, calls)
		if po.ImplErr != nil || !po.Model.OK {
			continue
		}
		switch po.Op.Kind {
		case OAddAllowed:
			var sb strings.Builder
			for _, en := range po.Op.Entries {
				who := e.addrOf(en.Who)
				if en.Who == -2 {
					who = en.RawAddr
				}
				fmt.Fprintf(&sb, "(%d,%s,%s)", po.Op.AuctionID, who, en.Max)
			}
			e.verifyOp(bo, what, -1, calls, []expHook{{"BeforeAllowedBiddersAdded", sb.String(), ""}})
		case OUpdateAllowed:
			old := "missing"
			if a := bo.MPrev.auction(po.Op.AuctionID); a != nil {
				// the cap before this op (earlier ops of the same block may have changed it)
				cap := a.Allowed[e.addrOf(po.Op.Who)]
				for k := 0; k < i; k++ {
					p := bo.PreRes[k]
					if p.ImplErr != nil || p.Op.AuctionID != po.Op.AuctionID {
						continue
					}
					if p.Op.Kind == OUpdateAllowed && p.Op.Who == po.Op.Who {
						cap = bi(p.Op.Max)
					}
					if p.Op.Kind == OAddAllowed {
						for _, en := range p.Op.Entries {
							if en.Who == po.Op.Who {
								cap = bi(en.Max)
							}
						}
					}
				}
				if cap != nil {
					old = "old=" + cap.String()
				}
			}
			e.verifyOp(bo, what, -1, calls, []expHook{{"BeforeAllowedBidderUpdated", fmt.Sprintf("%d|%s|%s", po.Op.AuctionID, e.addrOf(po.Op.Who), po.Op.Max), old}})
		}
	}
	// ---- settlement
	var exp []expHook
	for _, ev := range fx.Events {
		var id uint64
		if n, _ := fmt.Sscanf(ev, "settle:%d", &id); n == 1 {
			a := e.model.Auctions[id]
			refund := ""
			if a.Type == TypeBatch {
				refund = expMap(a.Refund)
			}
			exp = append(exp, expHook{"BeforeSellingCoinsAllocated", fmt.Sprintf("%d|%s|%s", id, expMap(a.Alloc), refund), fmt.Sprintf("status=%d,escrow=", StStarted)})
		}
	}
	e.verifyOp(bo, "settlement", -1, begin, exp)
	// at the time of the allocation hook the escrow must still hold the full offered amount
	for _, c := range begin {
		if c.Method != "BeforeSellingCoinsAllocated" {
			continue
		}
		var id uint64
		fmt.Sscanf(c.Args, "%d|", &id)
		if id < uint64(len(bo.Prev.Auctions)) {
			var st int
			var esc string
			fmt.Sscanf(c.PreStored, "status=%d,escrow=%s", &st, &esc)
			if bigFromStr(esc).Cmp(bigFromStr(bo.Prev.Auctions[id].SellAmt)) < 0 {
				e.hv(bo, "hook.after_change", c.Method, fmt.Sprintf("settlement of auction %d: allocation hook ran when the selling escrow held %s of %s offered", id, esc, bo.Prev.Auctions[id].SellAmt), -1)
			}
		}
	}
	// ---- transactions
	for i := range bo.Txs {
		o := &bo.Txs[i]
		tx := &bo.Blk.Txs[o.Idx]
		what := fmt.Sprintf("%s tx %d", tx.Msg.Kind, o.Idx)
		e.afterFailure(bo, what, o.Idx, o.Hooks)
		if o.Code != 0 || !o.Model.OK || o.Copy == 1 {
			continue
		}
		e.verifyOp(bo, what, o.Idx, o.Hooks, e.expForMsg(bo, tx))
		// the bidder a bid hook announces is the bidder the record carries, letter for letter (the
		// comparison above identifies accounts; a listener that keys by the string it is given must be
		// given the string the module stores)
		for _, c := range o.Hooks {
			if c.Raw == "" || (c.Method != "BeforeBidPlaced" && c.Method != "BeforeBidModified") {
				continue
			}
			var aid, bid uint64
			if n, _ := fmt.Sscanf(c.Args, "%d|%d|", &aid, &bid); n != 2 {
				continue
			}
			if stored, err := e.node.App.FundraisingKeeper.Bid.Get(e.node.ReadCtx(), collections.Join(aid, bid)); err == nil && stored.Bidder != c.Raw {
				e.hv(bo, "hook.values", c.Method+":spelling", fmt.Sprintf("%s: %s announced the bidder as %q, the bid is recorded for %q", what, c.Method, c.Raw, stored.Bidder), o.Idx)
			}
		}
	}
}
