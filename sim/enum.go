package sim

// C07(b): fault enumeration. For a block whose begin-block makes n >= 1
// bank / community-pool calls, a failure is injected into each call k < n on a
// scratch replica restored to the pre-block state; FinalizeBlock must report
// it, whichever auction it concerns.

import (
	"fmt"
)

func (e *execState) callOp(c Call, prev *Snap) (op string, auc int) {
	for _, a := range prev.Auctions {
		switch {
		case c.From == a.SellEscrow && c.To == a.Auctioneer:
			return "unsold-refund", int(a.ID)
		case c.From == a.SellEscrow:
			return "allocate", int(a.ID)
		case c.From == a.PayEscrow && c.To == a.VestEscrow:
			return "proceeds-to-vesting", int(a.ID)
		case c.From == a.PayEscrow && c.To == a.Auctioneer:
			return "proceeds-to-auctioneer", int(a.ID)
		case c.From == a.PayEscrow:
			return "refund", int(a.ID)
		case c.From == a.VestEscrow:
			return "release", int(a.ID)
		}
	}
	return c.Kind, -1
}

func (e *execState) enumBankFail(bi int, blk *Block, txs [][]byte, prev *Snap) {
	n := e.node
	st := e.res.Stats
	run := func(k int) (BlockResult, bool) {
		f, err := n.Fork(fmt.Sprintf("scratch-b%d-k%d", bi, k))
		if err != nil {
			e.res.HarnessErr = "fork: " + err.Error()
			return BlockResult{}, false
		}
		f.ResetRec()
		for i := range blk.Pre {
			_ = e.applyOpImpl(f, i, &blk.Pre[i])
		}
		if k >= 0 {
			f.Rec.inj.BankPhase, f.Rec.inj.BankK = "begin", k
		}
		br := f.Finalize(blk.TimeNs, txs, "")
		br.Calls = append([]Call{}, br.Calls...)
		fired := f.Rec.inj.BankFired
		f.App = nil
		f.DB = nil
		return br, fired
	}
	base, _ := run(-1)
	if e.res.HarnessErr != "" || base.Err != nil || base.Panic != "" {
		return // the fault-free oracle reports a failing block
	}
	var begin []Call
	for _, c := range base.Calls {
		if c.Phase == "begin" {
			begin = append(begin, c)
		}
	}
	if len(begin) == 0 {
		return
	}
	st.Probes["enum_blocks"]++
	// auctions the block processes, in loop order
	var live []int
	for _, a := range prev.Auctions {
		if a.Status == StStandby || a.Status == StStarted || a.Status == StVesting {
			live = append(live, int(a.ID))
		}
	}
	nAll := len(prev.Auctions)
	for k := range begin {
		br, fired := run(k)
		if e.res.HarnessErr != "" {
			return
		}
		st.Probes["enum_injections"]++
		if !fired {
			continue
		}
		st.Faults["bank_fail_begin"]++
		op, auc := e.callOp(begin[k], prev)
		pos := "only"
		if nAll > 1 {
			switch {
			case auc == nAll-1:
				pos = "last"
			case auc == 0:
				pos = "first"
			default:
				pos = "middle"
			}
		}
		liveAfter := 0
		for _, id := range live {
			if id > auc {
				liveAfter++
			}
		}
		follow := "no-live-auction-after"
		if liveAfter > 0 {
			follow = "live-auction-after"
		}
		st.EnumPairs[fmt.Sprintf("%s|%s|%s|k=%d", op, pos, follow, minInt(k, 6))] = true
		if br.Err == nil && br.Panic == "" {
			e.res.addV("C07", "block.swallowed_failure", follow,
				fmt.Sprintf("block %d: bank call %d of begin-block (%s for auction %d, %s of %d auctions, %d live auction(s) processed after it) was made to fail, but FinalizeBlock reported success", bi, k, op, auc, pos, nAll, liveAfter), bi, -1)
		}
	}
}

func minInt(a, b int) int {
	if a < b {
		return a
	}
	return b
}
