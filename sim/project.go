package sim

// C19, model-independent: the projection of a history onto one auction.
//
// "An operation on, or the settlement of, one auction never changes another
// auction's record, bids, allow-list, vesting instalments or escrow balances,
// and a bidder's allowance and bids in one auction never affect what the same
// bidder may do in another."  If that holds, deleting every other auction from
// a history - their creation, every message, keeper call and deposit that names
// them - must leave the chosen auction's whole evolution untouched: the same
// verdict for each of its messages, the same record, bids, allow-list and
// instalments and the same escrow balances after every block.  The projected
// history is executed on a second, fresh replica (real code, same block times,
// same block-level faults) and compared block by block with the full run.
//
// The only legitimate coupling between auctions is money: what an account
// spends or earns in one auction changes what it can afford in another.  A
// pair of runs in which any kept message fails for lack of funds in either
// run is therefore inconclusive and not compared (counted as a probe).

import (
	"fmt"
	"sort"
	"strings"
)

type projFrame struct {
	Cur   *Snap
	Codes map[int]uint32 // tx index in the block (first inclusion) -> result code
	Logs  map[int]string
}

func (e *execState) recordFrame(bo *blockObs) {
	f := projFrame{Cur: bo.Cur, Codes: map[int]uint32{}, Logs: map[int]string{}}
	for i := range bo.Txs {
		if bo.Txs[i].Copy == 0 {
			f.Codes[bo.Txs[i].Idx] = bo.Txs[i].Code
			f.Logs[bo.Txs[i].Idx] = bo.Txs[i].Log
		}
	}
	e.frames = append(e.frames, f)
}

// projectSchedule keeps of s what concerns the auction created by the
// (cb, ct) creation transaction - which gets id 0 in the projected run - and
// everything that concerns no auction at all. keptIdx[b][j] = index, in block b
// of the full schedule, of the j-th transaction of the projected block.
func projectSchedule(s *Schedule, k uint64, cb, ct int) (*Schedule, [][]int, bool) {
	p := &Schedule{Seed: s.Seed, Cfg: s.Cfg, GenesisNs: s.GenesisNs}
	p.Cfg.Replicas = 0
	p.Cfg.Listeners = 0
	keptIdx := make([][]int, len(s.Blocks))
	for bi := range s.Blocks {
		b := &s.Blocks[bi]
		nb := Block{TimeNs: b.TimeNs}
		for _, f := range b.Faults {
			switch f.Kind {
			case FCrashPre, FCrashPost, FLostCommit, FOEAbort, FOEHit:
				nb.Faults = append(nb.Faults, f)
			case FBankFail, FHookFail:
				return nil, nil, false // indexed by transaction / listener: not projected
			}
		}
		for _, op := range b.Pre {
			switch op.Kind {
			case OUpdateParams:
				nb.Pre = append(nb.Pre, op)
			default:
				if op.AuctionID == k && (bi > cb) {
					op.AuctionID = 0
					nb.Pre = append(nb.Pre, op)
				}
			}
		}
		for ti := range b.Txs {
			tx := b.Txs[ti]
			keep := false
			switch tx.Msg.Kind {
			case KCreateFixed, KCreateBatch:
				keep = bi == cb && ti == ct
			case KPlaceBid, KModifyBid, KCancel, KAddAllowed:
				if tx.Msg.AuctionID == k && (bi > cb || (bi == cb && ti > ct)) {
					tx.Msg.AuctionID = 0
					if tx.Msg.Allowed != nil {
						al := *tx.Msg.Allowed
						tx.Msg.Allowed = &al
					}
					keep = true
				}
			case KSend:
				if tx.Msg.ToKind == "actor" {
					keep = true
				} else if tx.Msg.ToAuction == k {
					// also before the auction exists: an escrow address is a function of the id
					tx.Msg.ToAuction = 0
					keep = true
				}
			case KUpdParams:
				keep = true
			}
			if tx.RawMsgJSON != "" {
				return nil, nil, false
			}
			if keep {
				nb.Txs = append(nb.Txs, tx)
				keptIdx[bi] = append(keptIdx[bi], ti)
			}
		}
		p.Blocks = append(p.Blocks, nb)
	}
	return p, keptIdx, true
}

// normAuction rewrites what legitimately differs between the full run (id k)
// and the projected run (id 0): the id and the escrow addresses derived from it.
func normAuction(a SAuction) string {
	a.ID = 0
	a.SellEscrow, a.PayEscrow, a.VestEscrow = "S", "P", "V"
	bids := make([]SBid, len(a.Bids))
	for i, b := range a.Bids {
		b.AuctionID = 0
		bids[i] = b
	}
	a.Bids = bids
	q := make([]SQueue, len(a.Queue))
	for i, x := range a.Queue {
		x.AuctionID = 0
		q[i] = x
	}
	a.Queue = q
	keys := make([]string, 0, len(a.Allowed))
	for k := range a.Allowed {
		keys = append(keys, k)
	}
	sort.Strings(keys)
	var sb strings.Builder
	for _, k := range keys {
		fmt.Fprintf(&sb, "%s=%s;", k, a.Allowed[k])
	}
	a.Allowed = nil
	return fmt.Sprintf("%+v allowed{%s}", a, sb.String())
}

func fundsBound(log string) bool {
	return strings.Contains(log, "insufficient funds") || strings.Contains(log, "insufficient fee") || strings.Contains(log, "smaller than")
}

// projectionCheck runs after the full schedule has been executed.
func (e *execState) projectionCheck() {
	res := e.res
	if len(e.frames) == 0 {
		return
	}
	last := e.frames[len(e.frames)-1].Cur
	if last == nil || len(last.Auctions) < 2 {
		return
	}
	// creation transactions in the order the implementation accepted them = ids 0, 1, 2, ...
	type site struct{ b, t int }
	var created []site
	for bi := range e.s.Blocks {
		if bi >= len(e.frames) {
			break
		}
		for ti := range e.s.Blocks[bi].Txs {
			kd := e.s.Blocks[bi].Txs[ti].Msg.Kind
			if kd != KCreateFixed && kd != KCreateBatch {
				continue
			}
			if code, ok := e.frames[bi].Codes[ti]; ok && code == 0 {
				created = append(created, site{bi, ti})
			}
		}
	}
	if len(created) != len(last.Auctions) {
		return // ids cannot be attributed to creation transactions (C19's id oracles speak to that)
	}
	u := uint64(e.s.Seed)
	if e.s.Seed < 0 {
		u = uint64(-e.s.Seed)
	}
	k := u % uint64(len(created))
	ps, keptIdx, ok := projectSchedule(e.s, k, created[k].b, created[k].t)
	if !ok {
		return
	}
	popt := ExecOpts{collectFrames: true}
	pres := Execute(ps, popt)
	if pres.HarnessErr != "" {
		res.HarnessErr = "projection: " + pres.HarnessErr
		return
	}
	pf := pres.frames
	res.Stats.Probes["projection_runs"]++
	// the projected run is part of this run's trace: the determinism self-test compares it across processes
	e.logf("projection of auction %d: trace %s", k, pres.TraceHash)
	nb := len(e.frames)
	if len(pf) < nb {
		nb = len(pf)
	}
	// money is the one legitimate coupling: inconclusive if any kept message was refused for lack of funds
	for bi := 0; bi < nb; bi++ {
		for j, ti := range keptIdx[bi] {
			if (e.frames[bi].Codes[ti] != 0 && fundsBound(e.frames[bi].Logs[ti])) || (pf[bi].Codes[j] != 0 && fundsBound(pf[bi].Logs[j])) {
				res.Stats.Probes["projection_inconclusive_funds"]++
				return
			}
		}
	}
	kept := e.s.Blocks[created[k].b].Txs[created[k].t].Msg.Kind
	for bi := created[k].b; bi < nb; bi++ {
		for j, ti := range keptIdx[bi] {
			fc, pc := e.frames[bi].Codes[ti], pf[bi].Codes[j]
			if (fc == 0) != (pc == 0) {
				tx := &e.s.Blocks[bi].Txs[ti]
				res.addV("C19", "projection.verdict", tx.Msg.Kind, fmt.Sprintf("block %d tx %d (%s on auction %d): code %d in the full history, code %d (%s) in the same history without the other auctions; full-history log: %s", bi, ti, tx.Msg.Kind, k, fc, pc, abbreviate(pf[bi].Logs[j]), abbreviate(e.frames[bi].Logs[ti])), bi, ti)
				return
			}
		}
		full, proj := e.frames[bi].Cur, pf[bi].Cur
		if full == nil || proj == nil || int(k) >= len(full.Auctions) || len(proj.Auctions) < 1 {
			if full != nil && proj != nil && (int(k) < len(full.Auctions)) != (len(proj.Auctions) >= 1) {
				res.addV("C19", "projection.record", "existence", fmt.Sprintf("after block %d auction %d (%s) exists in one of the full history and the history without the other auctions, but not in the other", bi, k, kept), bi, -1)
				return
			}
			continue
		}
		fa, pa := full.Auctions[k], proj.Auctions[0]
		if x, y := normAuction(fa), normAuction(pa); x != y {
			res.addV("C19", "projection.record", "record", fmt.Sprintf("after block %d auction %d differs from the same auction in the same history without the other auctions:\n full:      %s\n projected: %s", bi, k, x, y), bi, -1)
			return
		}
		for _, pr := range [][2]string{{fa.SellEscrow, pa.SellEscrow}, {fa.PayEscrow, pa.PayEscrow}, {fa.VestEscrow, pa.VestEscrow}} {
			if x, y := fmt.Sprint(full.Bal[pr[0]]), fmt.Sprint(proj.Bal[pr[1]]); x != y {
				res.addV("C19", "projection.escrow", "escrow", fmt.Sprintf("after block %d an escrow of auction %d holds %s; in the same history without the other auctions it holds %s", bi, k, x, y), bi, -1)
				return
			}
		}
	}
	res.Stats.Probes["projection_compared"]++
}
