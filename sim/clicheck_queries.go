package sim

import (
	"encoding/json"
	"fmt"
	"sort"
	"strings"
	"time"

	codectypes "github.com/cosmos/cosmos-sdk/codec/types"
	sdk "github.com/cosmos/cosmos-sdk/types"
)

type anyT = codectypes.Any
type sdkMsg = sdk.Msg

// cliQueries runs every query command of the binary against the simulated node
// and compares what it displays with the node's state.
func cliQueries(c *cliEnv, shim *rpcShim, e *execState, bo *blockObs, pairs map[string]bool, addV func(rule, key, detail string, cmd []string)) int {
	cur := bo.Cur
	n := 0
	q := func(args ...string) (map[string]interface{}, cliResult, bool) {
		full := append([]string{"query", "fundraising"}, args...)
		full = append(full, "--node", shim.addr(), "--output", "json")
		r := c.run(60*time.Second, full...)
		n++
		pairs["query|"+args[0]+"|"+flagShape(args)] = true
		if r.Panic || r.Exit != 0 {
			return nil, r, false
		}
		var doc map[string]interface{}
		if err := json.Unmarshal([]byte(r.Out), &doc); err != nil {
			addV("cli.query.display", args[0], fmt.Sprintf("`%s` printed something that is not JSON: %s", strings.Join(full, " "), abbreviate(r.Out)), full)
			return nil, r, false
		}
		return doc, r, true
	}
	fail := func(cmd string, args []string, r cliResult) {
		if strings.Contains(r.Err+r.Out, "cannot marshal response") && strings.Contains(r.Err+r.Out, "unsupported type *basev1beta1.fastReflection_Coin") {
			addV("cli.query.display", "legacy_coins:"+cmd, fmt.Sprintf("`query fundraising %s`: the node answered but the binary cannot display the answer: %s", strings.Join(args, " "), tail(firstNonEmpty(r.Err, r.Out), 160)), append([]string{"query", "fundraising"}, args...))
			return
		}
		addV("cli.query.failed", cmd, fmt.Sprintf("`query fundraising %s` failed: exit %d %s", strings.Join(args, " "), r.Exit, tail(firstNonEmpty(r.Err, r.Out), 600)), append([]string{"query", "fundraising"}, args...))
	}
	// params
	if doc, r, ok := q("params"); !ok {
		fail("params", []string{"params"}, r)
	} else if p, _ := doc["params"].(map[string]interface{}); p == nil || orZero(p["extended_period"]) != fmt.Sprint(cur.ExtPeriod) {
		addV("cli.query.value", "params", fmt.Sprintf("params displays extended_period=%v, stored %d", doc["params"], cur.ExtPeriod), []string{"query", "fundraising", "params"})
	}
	// list-auction (+ filters as flags)
	ids := func(doc map[string]interface{}) []string {
		var out []string
		arr, _ := doc["auction"].([]interface{})
		for _, x := range arr {
			m, _ := x.(map[string]interface{})
			ba := baseAuctionOf(m)
			id := "0"
			if v, ok := ba["id"]; ok {
				id = fmt.Sprint(v)
			}
			out = append(out, id+":"+fmt.Sprint(ba["status"]))
		}
		return out
	}
	wantA := func(status, typ int) []string {
		var out []string
		for _, a := range cur.Auctions {
			if (status == 0 || a.Status == status) && (typ == 0 || a.Type == typ) {
				out = append(out, fmt.Sprintf("%d:%s", a.ID, statusNames[a.Status]))
			}
		}
		return out
	}
	if doc, r, ok := q("list-auction", "--page-limit", "1000"); !ok {
		fail("list-auction", []string{"list-auction"}, r)
	} else if fmt.Sprint(ids(doc)) != fmt.Sprint(wantA(0, 0)) {
		addV("cli.query.value", "list-auction", fmt.Sprintf("list-auction displays %v, stored %v", ids(doc), wantA(0, 0)), []string{"query", "fundraising", "list-auction"})
	}
	if len(cur.Auctions) > 0 {
		st := cur.Auctions[bo.Idx%len(cur.Auctions)].Status
		if doc, r, ok := q("list-auction", "--status", statusNames[st], "--page-limit", "1000"); !ok {
			fail("list-auction", []string{"list-auction", "--status", statusNames[st]}, r)
		} else if fmt.Sprint(ids(doc)) != fmt.Sprint(wantA(st, 0)) {
			addV("cli.query.value", "list-auction", fmt.Sprintf("list-auction --status %s displays %v, stored %v", statusNames[st], ids(doc), wantA(st, 0)), []string{"query", "fundraising", "list-auction", "--status", statusNames[st]})
		}
	}
	for _, a := range cur.Auctions {
		if int(a.ID)%3 != bo.Idx%3 && len(cur.Auctions) > 2 {
			continue // rotate over auctions to bound the number of process starts
		}
		aid := fmt.Sprint(a.ID)
		if doc, r, ok := q("get-auction", aid); !ok {
			fail("get-auction", []string{"get-auction", aid}, r)
		} else {
			m, _ := doc["auction"].(map[string]interface{})
			ba := baseAuctionOf(m)
			if ba == nil || fmt.Sprint(ba["status"]) != statusNames[a.Status] || fmt.Sprint(ba["auctioneer"]) != a.Auctioneer {
				addV("cli.query.value", "get-auction", fmt.Sprintf("get-auction %s displays %v, stored status %s auctioneer %s", aid, ba, statusNames[a.Status], a.Auctioneer), []string{"query", "fundraising", "get-auction", aid})
			}
		}
		// bids
		if doc, r, ok := q("list-bid", "--auction-id", aid, "--page-limit", "1000"); !ok {
			fail("list-bid", []string{"list-bid", "--auction-id", aid}, r)
		} else {
			arr, _ := doc["bid"].([]interface{})
			var got, want []string
			for _, x := range arr {
				m, _ := x.(map[string]interface{})
				au := "0"
				if v, ok := m["auction_id"]; ok {
					au = fmt.Sprint(v)
				}
				got = append(got, au+"/"+fmt.Sprint(m["id"]))
			}
			for _, b := range a.Bids {
				want = append(want, fmt.Sprintf("%d/%d", a.ID, b.ID))
			}
			if fmt.Sprint(got) != fmt.Sprint(want) {
				addV("cli.query.value", "list-bid", fmt.Sprintf("list-bid --auction-id %s displays %v, stored %v", aid, got, want), []string{"query", "fundraising", "list-bid", "--auction-id", aid})
			}
		}
		if len(a.Bids) > 0 {
			b := a.Bids[bo.Idx%len(a.Bids)]
			if doc, r, ok := q("get-bid", aid, fmt.Sprint(b.ID)); !ok {
				fail("get-bid", []string{"get-bid", aid, fmt.Sprint(b.ID)}, r)
			} else {
				m, _ := doc["bid"].(map[string]interface{})
				if m == nil || fmt.Sprint(m["bidder"]) != b.Bidder || !sameDecDisplay(fmt.Sprint(m["price"]), b.Price) {
					addV("cli.query.value", "get-bid", fmt.Sprintf("get-bid %s %d displays %v, stored bidder %s price %s", aid, b.ID, m, b.Bidder, b.Price), []string{"query", "fundraising", "get-bid", aid, fmt.Sprint(b.ID)})
				}
			}
			if doc, r, ok := q("list-bid", "--auction-id", aid, "--bidder", b.Bidder, "--is-matched", fmt.Sprint(b.Matched), "--page-limit", "1000"); !ok {
				fail("list-bid", []string{"list-bid", "--auction-id", aid, "--bidder", b.Bidder, "--is-matched", fmt.Sprint(b.Matched)}, r)
			} else {
				arr, _ := doc["bid"].([]interface{})
				want := 0
				for _, x := range a.Bids {
					if x.Bidder == b.Bidder && x.Matched == b.Matched {
						want++
					}
				}
				if len(arr) != want {
					addV("cli.query.value", "list-bid", fmt.Sprintf("list-bid --auction-id %s --bidder … --is-matched %v displays %d bids, stored %d", aid, b.Matched, len(arr), want), []string{"query", "fundraising", "list-bid", "--auction-id", aid, "--bidder", b.Bidder, "--is-matched", fmt.Sprint(b.Matched)})
				}
			}
		}
		// allow-list
		ks := make([]string, 0, len(a.Allowed))
		for k := range a.Allowed {
			ks = append(ks, k)
		}
		sort.Strings(ks)
		if len(ks) > 0 {
			k := ks[bo.Idx%len(ks)]
			if doc, r, ok := q("get-allowed-bidder", aid, k); !ok {
				fail("get-allowed-bidder", []string{"get-allowed-bidder", aid, k}, r)
			} else {
				m, _ := doc["allowed_bidder"].(map[string]interface{})
				if m == nil || fmt.Sprint(m["bidder"]) != k || fmt.Sprint(m["max_bid_amount"]) != a.Allowed[k] {
					addV("cli.query.value", "get-allowed-bidder", fmt.Sprintf("get-allowed-bidder %s %s displays %v, stored cap %s", aid, short(k), m, a.Allowed[k]), []string{"query", "fundraising", "get-allowed-bidder", aid, k})
				}
			}
		}
		if _, r, ok := q("list-allowed-bidder", "--auction-id", aid, "--page-limit", "1000"); !ok {
			fail("list-allowed-bidder", []string{"list-allowed-bidder", "--auction-id", aid}, r)
		}
		if _, r, ok := q("list-vesting-queue", "--auction-id", aid, "--page-limit", "1000"); !ok {
			fail("list-vesting-queue", []string{"list-vesting-queue", "--auction-id", aid}, r)
		}
	}
	return n
}

func flagShape(args []string) string {
	var fs []string
	pos := 0
	for _, a := range args[1:] {
		if strings.HasPrefix(a, "--") {
			fs = append(fs, a)
		} else if len(fs) == 0 {
			pos++
		}
	}
	return fmt.Sprintf("pos%d %s", pos, strings.Join(fs, " "))
}

func tail(s string, n int) string {
	s = strings.TrimSpace(s)
	if len(s) > n {
		return "…" + s[len(s)-n:]
	}
	return s
}

func orZero(v interface{}) string {
	if v == nil {
		return "0"
	}
	return fmt.Sprint(v)
}

// baseAuctionOf: the base_auction object of a displayed auction. AutoCLI prints an Any either as
// {"@type":..., fields...} or, in amino JSON, as {"type":..., "value":{fields...}}.
func baseAuctionOf(m map[string]interface{}) map[string]interface{} {
	if m == nil {
		return nil
	}
	if v, ok := m["value"].(map[string]interface{}); ok {
		m = v
	}
	ba, _ := m["base_auction"].(map[string]interface{})
	return ba
}

// sameDecDisplay: SDK 0.50 AutoCLI shows cosmos.Dec values in their 18-decimal integer encoding
// ("2500000000000000000" for 2.5); both that form and the decimal form are accepted as a display
// of the stored value.
func sameDecDisplay(shown, stored string) bool {
	if shown == stored {
		return true
	}
	d, ok := parseDec(stored)
	return ok && d.String() == shown
}
