package sim

// Reference model of x/fundraising, written from the property statements and
// x/fundraising/spec. math/big only: decimals are big.Int scaled by 1e18 with
// explicit floor / ceil. No LegacyDec, no code from the repository.

import (
	"fmt"
	"math/big"
	"regexp"
	"sort"
	"strings"
)

var (
	bigOne  = big.NewInt(1)
	bigZero = big.NewInt(0)
	decUnit = new(big.Int).Exp(big.NewInt(10), big.NewInt(18), nil)
)

const (
	StStandby   = 1
	StStarted   = 2
	StVesting   = 3
	StFinished  = 4
	StCancelled = 5

	TypeFixed = 1
	TypeBatch = 2

	BidFixed = 1
	BidWorth = 2
	BidMany  = 3

	PoolAddr = "community_pool"

	MaxVestingSchedules = 100
	MaxExtendedRounds   = 30
)

func bi(s string) *big.Int {
	v, ok := new(big.Int).SetString(s, 10)
	if !ok {
		panic("bad int " + s)
	}
	return v
}

// parseDec parses a decimal string with at most 18 fractional digits into a
// 1e18-scaled integer.
// MaxExtPeriodDays: the documented bound of the extended-period parameter (100 years, in days).
const MaxExtPeriodDays = 36500

func parseDec(s string) (*big.Int, bool) {
	neg := false
	if strings.HasPrefix(s, "-") {
		neg = true
		s = s[1:]
	}
	if s == "" {
		return nil, false
	}
	ip, fp := s, ""
	if i := strings.IndexByte(s, '.'); i >= 0 {
		ip, fp = s[:i], s[i+1:]
	}
	if len(fp) > 18 {
		return nil, false
	}
	fp = fp + strings.Repeat("0", 18-len(fp))
	if ip == "" {
		ip = "0"
	}
	v, ok := new(big.Int).SetString(ip+fp, 10)
	if !ok {
		return nil, false
	}
	if neg {
		v.Neg(v)
	}
	return v, true
}

func mustDec(s string) *big.Int {
	v, ok := parseDec(s)
	if !ok {
		panic("bad dec " + s)
	}
	return v
}

func decString(d *big.Int) string {
	neg := d.Sign() < 0
	a := new(big.Int).Abs(d)
	q, r := new(big.Int).QuoRem(a, decUnit, new(big.Int))
	s := fmt.Sprintf("%s.%018s", q.String(), r.String())
	if neg {
		s = "-" + s
	}
	return s
}

// floor(a*1e18 / p) : quantity of selling coin bought by worth a at price p
func floorDivDec(a, p *big.Int) *big.Int {
	n := new(big.Int).Mul(a, decUnit)
	return n.Quo(n, p) // a, p positive
}

// ceil(a*p / 1e18) : paying coin needed for amount a at price p
func ceilMulDec(a, p *big.Int) *big.Int {
	n := new(big.Int).Mul(a, p)
	q, r := new(big.Int).QuoRem(n, decUnit, new(big.Int))
	if r.Sign() > 0 {
		q.Add(q, bigOne)
	}
	return q
}

// floor(a*w / 1e18)
func floorMulDec(a, w *big.Int) *big.Int {
	n := new(big.Int).Mul(a, w)
	return n.Quo(n, decUnit)
}

var denomRe = regexp.MustCompile(`^[a-zA-Z][a-zA-Z0-9/:._-]{2,127}$`)

func validDenom(d string) bool { return denomRe.MatchString(d) }

type MCoin struct {
	Denom string
	Amt   *big.Int
}

type MTransfer struct {
	From, To string
	Denom    string
	Amt      *big.Int
}

func (t MTransfer) String() string {
	return fmt.Sprintf("%s->%s:%s%s", short(t.From), short(t.To), t.Amt.String(), t.Denom)
}

func short(a string) string {
	if len(a) > 14 {
		return a[:9] + ".." + a[len(a)-4:]
	}
	return a
}

type MBid struct {
	ID      uint64
	Bidder  string
	Type    int32
	Price   *big.Int
	Denom   string
	Amt     *big.Int
	Matched bool // flagged matched per the model's final settlement
	// history
	CapAtAccept *big.Int // allow-list cap when this (fixed-price) bid was accepted
	Reserved    *big.Int // currently reserved paying amount
}

type MQueue struct {
	ReleaseNs int64
	Amt       *big.Int
	Released  bool
}

type MAuction struct {
	ID           uint64
	Type         int
	Auctioneer   string
	StartPrice   *big.Int
	MinBidPrice  *big.Int
	SellDenom    string
	SellAmt      *big.Int
	PayDenom     string
	Vesting      []VSchedM
	MaxExtRound  uint32
	ExtRate      *big.Int
	StartNs      int64
	EndTimes     []int64
	Status       int
	Remaining    *big.Int // fixed price
	MatchedPrice *big.Int // batch: published clearing price after settlement (0 if nothing sold)
	LastMatched  int64
	Bids         []*MBid
	Allowed      map[string]*big.Int
	Queue        []MQueue

	SellEscrow, PayEscrow, VestEscrow string

	// bookkeeping for oracles
	SettledAtBlock int
	Alloc          map[string]*big.Int // final allocation per bidder
	Paid           map[string]*big.Int // final payment per bidder
	Refund         map[string]*big.Int
	MatchedLenHist []int64
	Proceeds       *big.Int
	DustTop        bool // at settlement the highest price level had zero demand at its own price while a lower level qualified
	everFlagged    map[uint64]bool
	AmbiguousCap   bool // a capped bidder has several bids at qualifying prices: matched count / flags depend on processing order
}

type VSchedM struct {
	ReleaseNs int64
	Weight    *big.Int
}

type MParams struct {
	CreationFee []MCoin
	BidFee      []MCoin
	ExtPeriod   uint32
}

type Model struct {
	Now      int64
	Params   MParams
	Auctions []*MAuction
	Bal      map[string]map[string]*big.Int
	Seq      map[string]uint64
	Actors   []string            // bech32 addresses by actor index
	PoolIn   map[string]*big.Int // total funded to community pool per denom via fundraising fees
	EscrowFn func(kind string, id uint64) string
	BlockIdx int
	// witness / relaxation counters
	Relax map[string]int
}

type MResult struct {
	OK        bool
	AnteFail  bool // rejected before message execution: sequence not consumed
	Basic     bool // rejected by stateless field validation, which runs before the ante chain: sequence not consumed
	Reason    string
	Transfers []MTransfer
	DontCare  bool
}

func NewModel(actors []string, bal map[string]map[string]*big.Int, p MParams, escrow func(string, uint64) string) *Model {
	m := &Model{Params: p, Bal: map[string]map[string]*big.Int{}, Seq: map[string]uint64{}, Actors: actors,
		PoolIn: map[string]*big.Int{}, EscrowFn: escrow, Relax: map[string]int{}}
	for a, b := range bal {
		m.Bal[a] = map[string]*big.Int{}
		for d, v := range b {
			m.Bal[a][d] = new(big.Int).Set(v)
		}
	}
	return m
}

func (m *Model) bal(addr, denom string) *big.Int {
	if b, ok := m.Bal[addr]; ok {
		if v, ok := b[denom]; ok {
			return v
		}
	}
	return bigZero
}

func (m *Model) move(from, to, denom string, amt *big.Int, out *[]MTransfer) {
	if amt.Sign() == 0 {
		return
	}
	if amt.Sign() < 0 {
		panic("model: negative transfer")
	}
	if m.bal(from, denom).Cmp(amt) < 0 {
		panic(fmt.Sprintf("model: insufficient funds %s %s%s < %s", from, m.bal(from, denom), denom, amt))
	}
	if m.Bal[from] == nil {
		m.Bal[from] = map[string]*big.Int{}
	}
	m.Bal[from][denom] = new(big.Int).Sub(m.bal(from, denom), amt)
	if to == PoolAddr {
		if m.PoolIn[denom] == nil {
			m.PoolIn[denom] = new(big.Int)
		}
		m.PoolIn[denom].Add(m.PoolIn[denom], amt)
	} else {
		if m.Bal[to] == nil {
			m.Bal[to] = map[string]*big.Int{}
		}
		m.Bal[to][denom] = new(big.Int).Add(m.bal(to, denom), amt)
	}
	*out = append(*out, MTransfer{From: from, To: to, Denom: denom, Amt: new(big.Int).Set(amt)})
}

// canAfford: for each denom the account holds at least the sum required.
func (m *Model) canAfford(addr string, need []MCoin) bool {
	tot := map[string]*big.Int{}
	for _, c := range need {
		if tot[c.Denom] == nil {
			tot[c.Denom] = new(big.Int)
		}
		tot[c.Denom].Add(tot[c.Denom], c.Amt)
	}
	for d, v := range tot {
		if m.bal(addr, d).Cmp(v) < 0 {
			return false
		}
	}
	return true
}

func rej(reason string) MResult  { return MResult{OK: false, Reason: reason} }
func rejB(reason string) MResult { return MResult{OK: false, Basic: true, Reason: reason} }
func ante(reason string) MResult { return MResult{OK: false, AnteFail: true, Reason: reason} }

// validCoinsList mirrors the documented notion of a valid coin set: valid
// denoms, positive amounts, strictly sorted by denom.
func validCoinSet(cs []Coin) bool {
	prev := ""
	for i, c := range cs {
		if !validDenom(c.Denom) {
			return false
		}
		a, ok := new(big.Int).SetString(c.Amount, 10)
		if !ok || a.Sign() <= 0 {
			return false
		}
		if i > 0 && !(prev < c.Denom) {
			return false
		}
		prev = c.Denom
	}
	return true
}

func toMCoins(cs []Coin) []MCoin {
	var out []MCoin
	for _, c := range cs {
		out = append(out, MCoin{c.Denom, bi(c.Amount)})
	}
	return out
}

func (m *Model) actor(i int) string {
	if i < 0 || i >= len(m.Actors) {
		return ""
	}
	return m.Actors[i]
}

// validateVesting: empty, or <=100 entries, each 0 < w <= 1, sum = 1, release
// times strictly increasing and all after end.
func validateVesting(vs []VSched, endNs int64) (ok bool, parsed []VSchedM) {
	if len(vs) == 0 {
		return true, nil
	}
	tot := new(big.Int)
	var prev int64
	for i, s := range vs {
		w, ok := parseDec(s.Weight)
		if !ok || w.Sign() <= 0 || w.Cmp(decUnit) > 0 {
			return false, nil
		}
		if s.ReleaseNs <= endNs {
			return false, nil
		}
		if i > 0 && s.ReleaseNs <= prev {
			return false, nil
		}
		prev = s.ReleaseNs
		tot.Add(tot, w)
		parsed = append(parsed, VSchedM{s.ReleaseNs, w})
	}
	if tot.Cmp(decUnit) != 0 {
		return false, nil
	}
	return true, parsed
}

func (m *Model) ApplyMsg(msg *Msg) MResult {
	switch msg.Kind {
	case KCreateFixed, KCreateBatch:
		return m.createAuction(msg)
	case KCancel:
		return m.cancel(msg)
	case KPlaceBid:
		return m.placeBid(msg)
	case KModifyBid:
		return m.modifyBid(msg)
	case KAddAllowed:
		return rej("add-allowed-bidder message is disabled in a default build")
	case KUpdParams:
		return rej("user is not the authority")
	case KSend:
		return m.bankSend(msg)
	}
	panic("model: unknown msg kind " + msg.Kind)
}

func (m *Model) createAuction(msg *Msg) MResult {
	who := m.actor(msg.Who)
	sp, ok := parseDec(msg.StartPrice)
	if !ok || sp.Sign() <= 0 {
		return rejB("start price not positive")
	}
	var mbp, rate *big.Int
	if msg.Kind == KCreateBatch {
		mbp, ok = parseDec(msg.MinBidPrice)
		if !ok || mbp.Sign() <= 0 {
			return rejB("min bid price not positive")
		}
		rate, ok = parseDec(msg.ExtRate)
		if !ok || rate.Sign() <= 0 {
			return rejB("extended round rate not positive")
		}
	}
	if msg.SellingCoin == nil || !validDenom(msg.SellingCoin.Denom) {
		return rejB("selling coin denom invalid")
	}
	amt, ok := new(big.Int).SetString(msg.SellingCoin.Amount, 10)
	if !ok || amt.Sign() <= 0 {
		return rejB("selling amount not positive")
	}
	if !validDenom(msg.PayingDenom) {
		return rejB("paying denom invalid")
	}
	if msg.PayingDenom == msg.SellingCoin.Denom {
		return rejB("paying denom equals selling denom")
	}
	if msg.EndNs <= msg.StartNs {
		return rejB("end not after start")
	}
	vok, vs := validateVesting(msg.Vesting, msg.EndNs)
	if !vok {
		return rejB("vesting schedules invalid")
	}
	if len(msg.Vesting) > MaxVestingSchedules {
		return rej("too many vesting schedules")
	}
	if msg.Kind == KCreateBatch && msg.MaxExtRound > MaxExtendedRounds {
		return rej("max extended round too large")
	}
	if msg.EndNs < m.Now {
		return rej("end time in the past")
	}
	need := append([]MCoin{}, m.Params.CreationFee...)
	need = append(need, MCoin{msg.SellingCoin.Denom, amt})
	if !m.canAfford(who, need) {
		return rej("insufficient funds for fee + offered coin")
	}
	id := uint64(len(m.Auctions))
	a := &MAuction{ID: id, Auctioneer: who, StartPrice: sp, SellDenom: msg.SellingCoin.Denom, SellAmt: amt,
		PayDenom: msg.PayingDenom, Vesting: vs, StartNs: msg.StartNs, EndTimes: []int64{msg.EndNs},
		Allowed: map[string]*big.Int{}, SettledAtBlock: -1,
		SellEscrow: m.EscrowFn("selling", id), PayEscrow: m.EscrowFn("paying", id), VestEscrow: m.EscrowFn("vesting", id)}
	if msg.Kind == KCreateFixed {
		a.Type = TypeFixed
		a.Remaining = new(big.Int).Set(amt)
	} else {
		a.Type = TypeBatch
		a.MinBidPrice = mbp
		a.MaxExtRound = msg.MaxExtRound
		a.ExtRate = rate
		a.MatchedPrice = new(big.Int)
	}
	if msg.StartNs <= m.Now {
		a.Status = StStarted
	} else {
		a.Status = StStandby
	}
	var tr []MTransfer
	for _, f := range m.Params.CreationFee {
		m.move(who, PoolAddr, f.Denom, f.Amt, &tr)
	}
	m.move(who, a.SellEscrow, a.SellDenom, amt, &tr)
	m.Auctions = append(m.Auctions, a)
	return MResult{OK: true, Transfers: tr}
}

func (m *Model) auction(id uint64) *MAuction {
	if id >= uint64(len(m.Auctions)) {
		return nil
	}
	return m.Auctions[id]
}

func (m *Model) cancel(msg *Msg) MResult {
	a := m.auction(msg.AuctionID)
	if a == nil {
		return rej("auction not found")
	}
	if a.Auctioneer != m.actor(msg.Who) {
		return rej("not the auctioneer")
	}
	if a.Status != StStandby {
		return rej("auction is not waiting")
	}
	var tr []MTransfer
	m.move(a.SellEscrow, a.Auctioneer, a.SellDenom, new(big.Int).Set(m.bal(a.SellEscrow, a.SellDenom)), &tr)
	a.Status = StCancelled
	if a.Type == TypeFixed {
		a.Remaining = new(big.Int)
	}
	return MResult{OK: true, Transfers: tr}
}

// bid quantity (selling coin asked for) and reservation at the bid's own price
func bidQtyRes(a *MAuction, typ int32, denom string, amt, price *big.Int) (q, r *big.Int) {
	switch typ {
	case BidFixed:
		if denom == a.PayDenom {
			return floorDivDec(amt, price), new(big.Int).Set(amt)
		}
		return new(big.Int).Set(amt), ceilMulDec(amt, price)
	case BidWorth:
		return floorDivDec(amt, price), new(big.Int).Set(amt)
	case BidMany:
		return new(big.Int).Set(amt), ceilMulDec(amt, price)
	}
	panic("bad bid type")
}

func (m *Model) placeBid(msg *Msg) MResult {
	who := m.actor(msg.Who)
	price, ok := parseDec(msg.Price)
	if !ok || price.Sign() <= 0 {
		return rejB("price not positive")
	}
	if msg.Coin == nil || !validDenom(msg.Coin.Denom) {
		return rejB("coin denom invalid")
	}
	amt, ok := new(big.Int).SetString(msg.Coin.Amount, 10)
	if !ok || amt.Sign() <= 0 {
		return rejB("coin amount not positive")
	}
	if msg.BidType != BidFixed && msg.BidType != BidWorth && msg.BidType != BidMany {
		return rejB("bid type invalid")
	}
	a := m.auction(msg.AuctionID)
	if a == nil {
		return rej("auction not found")
	}
	if a.Status != StStarted {
		return rej("auction not open")
	}
	cap, allowed := a.Allowed[who]
	if !allowed {
		return rej("bidder not allow-listed")
	}
	denom := msg.Coin.Denom
	switch msg.BidType {
	case BidFixed:
		if a.Type != TypeFixed {
			return rej("fixed-price bid on a batch auction")
		}
		if denom != a.PayDenom && denom != a.SellDenom {
			return rej("bid denom is neither paying nor selling denom")
		}
		if price.Cmp(a.StartPrice) != 0 {
			return rej("price differs from the auction price")
		}
	case BidWorth:
		if a.Type != TypeBatch {
			return rej("batch bid on a fixed-price auction")
		}
		if denom != a.PayDenom {
			return rej("worth bid must be in the paying denom")
		}
	case BidMany:
		if a.Type != TypeBatch {
			return rej("batch bid on a fixed-price auction")
		}
		if denom != a.SellDenom {
			return rej("quantity bid must be in the selling denom")
		}
	}
	if a.Type == TypeBatch && price.Cmp(a.MinBidPrice) < 0 {
		return rej("price below the minimum bid price")
	}
	q, r := bidQtyRes(a, msg.BidType, denom, amt, price)
	if msg.BidType == BidFixed {
		if q.Cmp(a.Remaining) > 0 {
			return rej("remainder does not cover the bid")
		}
		used := new(big.Int)
		for _, b := range a.Bids {
			if b.Bidder == who {
				bq, _ := bidQtyRes(a, b.Type, b.Denom, b.Amt, b.Price)
				used.Add(used, bq)
			}
		}
		if used.Add(used, q).Cmp(cap) > 0 {
			return rej("allowance exceeded")
		}
	} else {
		if q.Cmp(cap) > 0 {
			return rej("allowance exceeded")
		}
	}
	need := append([]MCoin{}, m.Params.BidFee...)
	need = append(need, MCoin{a.PayDenom, r})
	if !m.canAfford(who, need) {
		return rej("insufficient funds for fee + reservation")
	}
	var tr []MTransfer
	for _, f := range m.Params.BidFee {
		m.move(who, PoolAddr, f.Denom, f.Amt, &tr)
	}
	m.move(who, a.PayEscrow, a.PayDenom, r, &tr)
	b := &MBid{ID: uint64(len(a.Bids) + 1), Bidder: who, Type: msg.BidType, Price: price, Denom: denom, Amt: amt,
		CapAtAccept: new(big.Int).Set(cap), Reserved: r}
	if msg.BidType == BidFixed {
		a.Remaining = new(big.Int).Sub(a.Remaining, q)
	}
	a.Bids = append(a.Bids, b)
	return MResult{OK: true, Transfers: tr}
}

func (m *Model) modifyBid(msg *Msg) MResult {
	who := m.actor(msg.Who)
	price, ok := parseDec(msg.Price)
	if !ok || price.Sign() <= 0 {
		return rejB("price not positive")
	}
	if msg.Coin == nil || !validDenom(msg.Coin.Denom) {
		return rejB("coin denom invalid")
	}
	amt, ok := new(big.Int).SetString(msg.Coin.Amount, 10)
	if !ok || amt.Sign() <= 0 {
		return rejB("coin amount not positive")
	}
	a := m.auction(msg.AuctionID)
	if a == nil {
		return rej("auction not found")
	}
	if a.Status != StStarted {
		return rej("auction not open")
	}
	if a.Type != TypeBatch {
		return rej("not a batch auction")
	}
	if msg.BidID == 0 || msg.BidID > uint64(len(a.Bids)) {
		return rej("bid not found")
	}
	b := a.Bids[msg.BidID-1]
	if b.Bidder != who {
		return rej("not the bid owner")
	}
	if price.Cmp(a.MinBidPrice) < 0 {
		return rej("price below the minimum bid price")
	}
	if msg.Coin.Denom != b.Denom {
		return rej("denomination changed")
	}
	if price.Cmp(b.Price) < 0 || amt.Cmp(b.Amt) < 0 {
		return rej("price or amount lowered")
	}
	if price.Cmp(b.Price) == 0 && amt.Cmp(b.Amt) == 0 {
		return rej("nothing changed")
	}
	_, rnew := bidQtyRes(a, b.Type, b.Denom, amt, price)
	diff := new(big.Int).Sub(rnew, b.Reserved)
	if diff.Sign() < 0 {
		panic("model: reservation decreased")
	}
	if !m.canAfford(who, []MCoin{{a.PayDenom, diff}}) {
		return rej("insufficient funds for the additional reservation")
	}
	var tr []MTransfer
	m.move(who, a.PayEscrow, a.PayDenom, diff, &tr)
	b.Price, b.Amt, b.Reserved = price, amt, rnew
	return MResult{OK: true, Transfers: tr}
}

func (m *Model) bankSend(msg *Msg) MResult {
	who := m.actor(msg.Who)
	var to string
	switch msg.ToKind {
	case "actor":
		to = m.actor(msg.ToActor)
	default:
		to = m.EscrowFn(msg.ToKind, msg.ToAuction)
	}
	if !validCoinSet(msg.Coins) || len(msg.Coins) == 0 {
		return rej("invalid coins")
	}
	need := toMCoins(msg.Coins)
	if !m.canAfford(who, need) {
		return rej("insufficient funds")
	}
	var tr []MTransfer
	for _, c := range need {
		m.move(who, to, c.Denom, c.Amt, &tr)
	}
	return MResult{OK: true, Transfers: tr}
}

// ---- keeper-API operations ----

func (m *Model) ApplyOp(op *Op) MResult {
	switch op.Kind {
	case OAddAllowed:
		if len(op.Entries) == 0 {
			return rej("empty list")
		}
		a := m.auction(op.AuctionID)
		if a == nil {
			return rej("auction not found")
		}
		type ent struct {
			addr string
			cap  *big.Int
		}
		var es []ent
		for _, e := range op.Entries {
			if e.Who == -2 && e.RawAddr != "" {
				// an outsider: a well-formed address that belongs to no actor of the run
			} else if e.Who < 0 {
				return rej("invalid address")
			}
			c, ok := new(big.Int).SetString(e.Max, 10)
			if !ok || c.Sign() <= 0 {
				return rej("cap not positive")
			}
			if c.Cmp(a.SellAmt) > 0 {
				return rej("cap above the offered amount")
			}
			if e.Who == -2 {
				es = append(es, ent{e.RawAddr, c})
			} else {
				es = append(es, ent{m.actor(e.Who), c})
			}
		}
		for _, e := range es {
			a.Allowed[e.addr] = e.cap
		}
		return MResult{OK: true}
	case OUpdateAllowed:
		a := m.auction(op.AuctionID)
		if a == nil {
			return rej("auction not found")
		}
		addr := m.actor(op.Who)
		if _, ok := a.Allowed[addr]; !ok {
			return rej("entry not found")
		}
		c, ok := new(big.Int).SetString(op.Max, 10)
		if !ok || c.Sign() <= 0 {
			return rej("cap not positive")
		}
		r := MResult{OK: true}
		if c.Cmp(a.SellAmt) > 0 {
			r.DontCare = true // L3: cap larger than supply on update is not specified
		}
		a.Allowed[addr] = c
		return r
	case OUpdateParams:
		if !validCoinSet(op.Params.CreationFee) || !validCoinSet(op.Params.BidFee) {
			return rej("invalid fee coins")
		}
		if op.Params.ExtPeriod > MaxExtPeriodDays {
			// an end time that many days later cannot be represented (the year 9999 is the last one a
			// timestamp can hold): such a parameter must be refused when it is set, not when it is used
			return rej("extended period too long")
		}
		m.Params = MParams{toMCoins(op.Params.CreationFee), toMCoins(op.Params.BidFee), op.Params.ExtPeriod}
		return MResult{OK: true}
	}
	panic("model: unknown op " + op.Kind)
}

// ---- block processing ----

type BlockWitness struct {
	// Extended[id] = true if the implementation extended auction id in this
	// block; consulted only when the rate comparison is within 1e-18 (L2).
	Extended map[uint64]bool
}

type BlockEffects struct {
	Transfers []MTransfer
	Events    []string // "open:3", "settle:3", "extend:3", "release:3:<ns>", "finish:3"
}

const dayNs = int64(24 * 3600 * 1e9)

func (m *Model) BeginBlock(t int64, w *BlockWitness) BlockEffects {
	m.Now = t
	var fx BlockEffects
	for _, a := range m.Auctions {
		switch a.Status {
		case StStandby:
			if a.StartNs <= t {
				a.Status = StStarted
				fx.Events = append(fx.Events, fmt.Sprintf("open:%d", a.ID))
			}
		case StStarted:
			if a.EndTimes[len(a.EndTimes)-1] <= t {
				if a.Type == TypeFixed {
					m.settleFixed(a, &fx)
				} else {
					m.closeBatch(a, &fx, w)
				}
			}
		case StVesting:
			m.release(a, t, &fx)
		}
	}
	return fx
}

func (m *Model) settleFixed(a *MAuction, fx *BlockEffects) {
	alloc := map[string]*big.Int{}
	paid := map[string]*big.Int{}
	for _, b := range a.Bids {
		q, _ := bidQtyRes(a, b.Type, b.Denom, b.Amt, b.Price)
		if alloc[b.Bidder] == nil {
			alloc[b.Bidder] = new(big.Int)
			paid[b.Bidder] = new(big.Int)
		}
		alloc[b.Bidder].Add(alloc[b.Bidder], q)
		paid[b.Bidder].Add(paid[b.Bidder], b.Reserved)
		b.Matched = q.Sign() > 0
	}
	a.Alloc, a.Paid, a.Refund = alloc, paid, map[string]*big.Int{}
	m.distribute(a, alloc, nil, fx)
}

// distribute: allocations to bidders (address order), unsold to auctioneer,
// refunds to bidders (address order), then proceeds to auctioneer / vesting.
func (m *Model) distribute(a *MAuction, alloc, refund map[string]*big.Int, fx *BlockEffects) {
	for _, bidder := range sortedKeys(alloc) {
		m.move(a.SellEscrow, bidder, a.SellDenom, alloc[bidder], &fx.Transfers)
	}
	m.move(a.SellEscrow, a.Auctioneer, a.SellDenom, new(big.Int).Set(m.bal(a.SellEscrow, a.SellDenom)), &fx.Transfers)
	for _, bidder := range sortedKeys(refund) {
		m.move(a.PayEscrow, bidder, a.PayDenom, refund[bidder], &fx.Transfers)
	}
	proceeds := new(big.Int).Set(m.bal(a.PayEscrow, a.PayDenom))
	a.Proceeds = proceeds
	a.SettledAtBlock = m.BlockIdx
	fx.Events = append(fx.Events, fmt.Sprintf("settle:%d", a.ID))
	if len(a.Vesting) == 0 {
		m.move(a.PayEscrow, a.Auctioneer, a.PayDenom, proceeds, &fx.Transfers)
		a.Status = StFinished
		fx.Events = append(fx.Events, fmt.Sprintf("finish:%d", a.ID))
		return
	}
	m.move(a.PayEscrow, a.VestEscrow, a.PayDenom, proceeds, &fx.Transfers)
	rem := new(big.Int).Set(proceeds)
	for i, s := range a.Vesting {
		amt := floorMulDec(proceeds, s.Weight)
		if i == len(a.Vesting)-1 {
			amt = new(big.Int).Set(rem)
		}
		rem.Sub(rem, amt)
		a.Queue = append(a.Queue, MQueue{s.ReleaseNs, amt, false})
	}
	a.Status = StVesting
}

func sortedKeys(mp map[string]*big.Int) []string {
	ks := make([]string, 0, len(mp))
	for k := range mp {
		ks = append(ks, k)
	}
	sort.Strings(ks)
	return ks
}

func (m *Model) release(a *MAuction, t int64, fx *BlockEffects) {
	for i := range a.Queue {
		q := &a.Queue[i]
		if q.ReleaseNs <= t && !q.Released {
			m.move(a.VestEscrow, a.Auctioneer, a.PayDenom, q.Amt, &fx.Transfers)
			q.Released = true
			fx.Events = append(fx.Events, fmt.Sprintf("release:%d:%d", a.ID, q.ReleaseNs))
			if i == len(a.Queue)-1 {
				a.Status = StFinished
				fx.Events = append(fx.Events, fmt.Sprintf("finish:%d", a.ID))
			}
		}
	}
}

// MatchOutcome is the model's view of one matching of a batch order book.
type MatchOutcome struct {
	Price      *big.Int            // nil if nothing sold
	Alloc      map[string]*big.Int // every bidder with at least one bid has an entry
	Pay        map[string]*big.Int
	PayLo      map[string]*big.Int // ceil(p * alloc): lower bound whatever the split
	NBidsPos   map[string]int      // matched bids per bidder
	MatchedLen int64
	Flagged    map[uint64]bool
	Total      *big.Int
	Ambiguous  bool
	CapCut     bool // probe: an allow-list cap cut a bid's quantity
	DustTop    bool // probe: highest price level has zero demand at its own price while a lower one qualifies
}

// demandAt: per-bidder capped demand at price p over bids priced >= p.
func demandAt(a *MAuction, p *big.Int) (per map[string]*big.Int, total *big.Int) {
	per = map[string]*big.Int{}
	for _, b := range a.Bids {
		if b.Price.Cmp(p) < 0 {
			continue
		}
		var q *big.Int
		if b.Type == BidWorth {
			q = floorDivDec(b.Amt, p)
		} else {
			q = new(big.Int).Set(b.Amt)
		}
		if per[b.Bidder] == nil {
			per[b.Bidder] = new(big.Int)
		}
		per[b.Bidder].Add(per[b.Bidder], q)
	}
	total = new(big.Int)
	for bidder, d := range per {
		cap := a.Allowed[bidder]
		if cap != nil && d.Cmp(cap) > 0 {
			per[bidder] = new(big.Int).Set(cap)
		}
		total.Add(total, per[bidder])
	}
	return
}

// Match: linear scan from the lowest distinct bid price upwards (the
// definition in C03, not a search).
func (m *Model) Match(a *MAuction) MatchOutcome {
	out := MatchOutcome{Alloc: map[string]*big.Int{}, Pay: map[string]*big.Int{}, PayLo: map[string]*big.Int{},
		NBidsPos: map[string]int{}, Flagged: map[uint64]bool{}, Total: new(big.Int)}
	for _, b := range a.Bids {
		out.Alloc[b.Bidder] = new(big.Int)
		out.Pay[b.Bidder] = new(big.Int)
		out.PayLo[b.Bidder] = new(big.Int)
	}
	// distinct prices ascending
	var prices []*big.Int
	seen := map[string]bool{}
	for _, b := range a.Bids {
		if !seen[b.Price.String()] {
			seen[b.Price.String()] = true
			prices = append(prices, b.Price)
		}
	}
	sort.Slice(prices, func(i, j int) bool { return prices[i].Cmp(prices[j]) < 0 })
	var clearing *big.Int
	for _, p := range prices {
		_, tot := demandAt(a, p)
		if tot.Cmp(a.SellAmt) <= 0 {
			if tot.Sign() > 0 {
				clearing = p
			}
			break
		}
	}
	if len(prices) > 0 {
		top := prices[len(prices)-1]
		_, tt := demandAt(a, top)
		if tt.Sign() == 0 && clearing != nil {
			out.DustTop = true
		}
	}
	if clearing == nil {
		return out
	}
	out.Price = clearing
	// sequential processing: price descending, id ascending
	idx := make([]*MBid, 0, len(a.Bids))
	for _, b := range a.Bids {
		if b.Price.Cmp(clearing) >= 0 {
			idx = append(idx, b)
		}
	}
	sort.SliceStable(idx, func(i, j int) bool {
		c := idx[i].Price.Cmp(idx[j].Price)
		if c != 0 {
			return c > 0
		}
		return idx[i].ID < idx[j].ID
	})
	remCap := map[string]*big.Int{}
	wanted := map[string]*big.Int{}
	nb := map[string]int{}
	for _, b := range idx {
		if remCap[b.Bidder] == nil {
			remCap[b.Bidder] = new(big.Int).Set(a.Allowed[b.Bidder])
			wanted[b.Bidder] = new(big.Int)
		}
		var q *big.Int
		if b.Type == BidWorth {
			q = floorDivDec(b.Amt, clearing)
		} else {
			q = new(big.Int).Set(b.Amt)
		}
		wanted[b.Bidder].Add(wanted[b.Bidder], q)
		if q.Sign() > 0 {
			nb[b.Bidder]++
		}
		mt := q
		if mt.Cmp(remCap[b.Bidder]) > 0 {
			mt = new(big.Int).Set(remCap[b.Bidder])
			out.CapCut = true
		}
		if mt.Sign() > 0 {
			remCap[b.Bidder].Sub(remCap[b.Bidder], mt)
			out.Alloc[b.Bidder].Add(out.Alloc[b.Bidder], mt)
			out.Pay[b.Bidder].Add(out.Pay[b.Bidder], ceilMulDec(mt, clearing))
			out.Flagged[b.ID] = true
			out.NBidsPos[b.Bidder]++
			out.MatchedLen++
			out.Total.Add(out.Total, mt)
		}
	}
	for bidder, w := range wanted {
		if w.Cmp(a.Allowed[bidder]) > 0 && nb[bidder] > 1 {
			out.Ambiguous = true
		}
		out.PayLo[bidder] = ceilMulDec(out.Alloc[bidder], clearing)
	}
	return out
}

func (m *Model) closeBatch(a *MAuction, fx *BlockEffects, w *BlockWitness) {
	mo := m.Match(a)
	last := a.LastMatched
	a.LastMatched = mo.MatchedLen
	a.MatchedLenHist = append(a.MatchedLenHist, mo.MatchedLen)
	if mo.Ambiguous {
		a.AmbiguousCap = true
	}
	if mo.DustTop {
		a.DustTop = true
		m.Relax["probe:dust_bid_on_top"]++
	}
	if mo.CapCut {
		m.Relax["probe:cap_cut_a_bid"]++
	}
	if a.everFlagged == nil {
		a.everFlagged = map[uint64]bool{}
	}
	for id := range a.everFlagged {
		if !mo.Flagged[id] {
			m.Relax["probe:provisional_winner_later_lost"]++
			break
		}
	}
	for id := range mo.Flagged {
		a.everFlagged[id] = true
	}
	final := uint32(len(a.EndTimes)) >= a.MaxExtRound+1
	if !final {
		extend := false
		if last == 0 {
			extend = true
		} else {
			// drop = (last-cur)/last >= rate  <=>  (last-cur)*1e18 >= rate*last
			lhs := new(big.Int).Mul(big.NewInt(last-mo.MatchedLen), decUnit)
			rhs := new(big.Int).Mul(a.ExtRate, big.NewInt(last))
			d := new(big.Int).Sub(lhs, rhs)
			extend = d.Sign() >= 0
			if d.Sign() < 0 && new(big.Int).Lsh(new(big.Int).Neg(d), 1).Cmp(big.NewInt(last)) < 0 && w != nil {
				// the true fall is below the rate by less than 0.5e-18: the quotient cur/last, taken at the
				// 18-decimal precision of the decimal type with standard rounding, lands on 1 - rate.
				// Either outcome is accepted there (L2); a fall at or above the rate must extend, a fall
				// short of it by 0.5e-18 or more must settle.
				if v, ok := w.Extended[a.ID]; ok {
					extend = v
					m.Relax["L2"]++
				}
			}
		}
		if extend {
			next := a.EndTimes[len(a.EndTimes)-1] + int64(m.Params.ExtPeriod)*dayNs
			a.EndTimes = append(a.EndTimes, next)
			fx.Events = append(fx.Events, fmt.Sprintf("extend:%d", a.ID))
			return
		}
	}
	// final settlement
	a.Alloc, a.Paid, a.Refund = mo.Alloc, mo.Pay, map[string]*big.Int{}
	reserved := map[string]*big.Int{}
	for _, b := range a.Bids {
		if reserved[b.Bidder] == nil {
			reserved[b.Bidder] = new(big.Int)
		}
		reserved[b.Bidder].Add(reserved[b.Bidder], b.Reserved)
		b.Matched = mo.Flagged[b.ID]
	}
	for bidder, r := range reserved {
		a.Refund[bidder] = new(big.Int).Sub(r, mo.Pay[bidder])
	}
	if mo.Price != nil {
		a.MatchedPrice = new(big.Int).Set(mo.Price)
	} else {
		a.MatchedPrice = new(big.Int)
	}
	m.distribute(a, mo.Alloc, a.Refund, fx)
}

// Clone: deep copy (used by the generator and by fault enumeration).
func (m *Model) Clone() *Model {
	c := &Model{Now: m.Now, Params: m.Params, Bal: map[string]map[string]*big.Int{}, Seq: map[string]uint64{},
		Actors: m.Actors, PoolIn: map[string]*big.Int{}, EscrowFn: m.EscrowFn, BlockIdx: m.BlockIdx, Relax: map[string]int{}}
	for a, b := range m.Bal {
		c.Bal[a] = map[string]*big.Int{}
		for d, v := range b {
			c.Bal[a][d] = new(big.Int).Set(v)
		}
	}
	for k, v := range m.Seq {
		c.Seq[k] = v
	}
	for k, v := range m.PoolIn {
		c.PoolIn[k] = new(big.Int).Set(v)
	}
	for k, v := range m.Relax {
		c.Relax[k] = v
	}
	for _, a := range m.Auctions {
		na := *a
		na.EndTimes = append([]int64{}, a.EndTimes...)
		na.Queue = append([]MQueue{}, a.Queue...)
		na.MatchedLenHist = append([]int64{}, a.MatchedLenHist...)
		na.Allowed = map[string]*big.Int{}
		for k, v := range a.Allowed {
			na.Allowed[k] = v
		}
		if a.everFlagged != nil {
			na.everFlagged = map[uint64]bool{}
			for k, v := range a.everFlagged {
				na.everFlagged[k] = v
			}
		}
		na.Bids = nil
		for _, b := range a.Bids {
			nb := *b
			na.Bids = append(na.Bids, &nb)
		}
		c.Auctions = append(c.Auctions, &na)
	}
	return c
}

// MTxRes: the model's verdict on one included transaction (duplicates get their own entry).
type MTxRes struct {
	Res MResult
	Seq uint64 // sequence number the client signs with
}

// StepBlock applies one block of the schedule to the model: keeper-API
// operations, block processing at the block's time, then the transactions in
// proposer order. forceFail >= 0 makes that tx fail at message level (an
// injected fault fired inside it).
func (m *Model) StepBlock(blk *Block, w *BlockWitness, forceFail int) (pre []MResult, fx BlockEffects, txr []MTxRes) {
	return m.StepBlockF(blk, w, forceFail, -1)
}

// StepBlockF: as StepBlock; forcePre >= 0 makes that keeper operation fail (an injected listener failure).
func (m *Model) StepBlockF(blk *Block, w *BlockWitness, forceFail, forcePre int) (pre []MResult, fx BlockEffects, txr []MTxRes) {
	return m.StepBlockFS(blk, w, map[int]bool{forceFail: true}, forcePre)
}

// StepBlockFS: as StepBlockF with a set of transactions forced to fail at message level.
func (m *Model) StepBlockFS(blk *Block, w *BlockWitness, forced map[int]bool, forcePre int) (pre []MResult, fx BlockEffects, txr []MTxRes) {
	for i := range blk.Pre {
		if i == forcePre {
			pre = append(pre, rej("injected failure"))
			continue
		}
		pre = append(pre, m.ApplyOp(&blk.Pre[i]))
	}
	fx = m.BeginBlock(blk.TimeNs, w)
	for i := range blk.Txs {
		tx := &blk.Txs[i]
		signer := m.actor(tx.Actor)
		seq := m.Seq[signer]
		sd := int64(seq) + int64(tx.SeqDelta)
		if sd < 0 {
			sd = int64(seq) + 1
		}
		var r MResult
		switch {
		case uint64(sd) != seq:
			r = ante("sequence mismatch")
		case tx.Msg.Who != tx.Actor:
			r = ante("signature does not match the message's signer")
		case forced[i]:
			r = rej("forced failure")
			m.Seq[signer]++
		default:
			r = m.ApplyMsg(&tx.Msg)
			if !r.Basic {
				m.Seq[signer]++
			}
		}
		txr = append(txr, MTxRes{r, uint64(sd)})
		if tx.Dup {
			txr = append(txr, MTxRes{ante("duplicate transaction"), uint64(sd)})
		}
	}
	return
}
