package sim

import (
	"encoding/json"
	"fmt"
	"os"
	"path/filepath"
	"time"
)

func runCLICheck(spec CheckSpec, tier string, seed int64, verifDir string, start time.Time) int {
	scratch, err := os.MkdirTemp("/var/tmp", "verif-scratch.")
	if err != nil {
		fmt.Println("scratch:", err)
		return 2
	}
	defer os.RemoveAll(scratch)
	bin := filepath.Join(scratch, "fundraisingd")
	if err := buildDefaultBinary(repoDir(), bin, ""); err != nil {
		fmt.Println("BUILD FAILED:", err)
		return 2
	}
	c := &cliEnv{bin: bin, home: filepath.Join(scratch, "home"), scratch: scratch}
	pairs := map[string]bool{}
	samples := []interface{}{}
	vs, txCmds, qCmds := bootProbe(c, pairs)
	stats := map[string]interface{}{"tx_commands": txCmds, "query_commands": qCmds}
	if len(vs) == 0 {
		budget := time.Duration(spec.QuickS) * time.Second
		if tier == "thorough" {
			budget = time.Duration(spec.ThoroughS) * time.Second
		}
		budget = time.Duration(envInt("VERIF_BUDGET_S", int64(budget/time.Second))) * time.Second
		more, st, smp, herr := cliInTheLoop(c, seed, budget, pairs)
		if herr != "" {
			fmt.Println("HARNESS:", herr)
			return 2
		}
		vs = append(vs, more...)
		for k, v := range st {
			stats[k] = v
		}
		samples = append(samples, smp...)
		// boot part: a real single-node chain from the binary (not simulation)
		nv, nst := realNodeProbe(c)
		vs = append(vs, nv...)
		for k, v := range nst {
			stats[k] = v
		}
	}
	kf, err := LoadFindings(filepath.Join(verifDir, "known_findings.json"))
	if err != nil {
		fmt.Println("known_findings.json:", err)
		return 2
	}
	exit, nViol, nKnown := 0, 0, 0
	seen := map[string]bool{}
	for _, v := range vs {
		k := v.Rule + "|" + v.Key
		if seen[k] {
			continue
		}
		seen[k] = true
		if kn := kf.Match(Violation{Property: spec.Property, Rule: v.Rule, Key: v.Key}); kn != nil {
			if seen["id:"+kn.ID] {
				continue
			}
			seen["id:"+kn.ID] = true
			nKnown++
			fmt.Printf("KNOWN-FINDING: property=%s %s [%s]\n", spec.Property, kn.What, kn.ID)
			continue
		}
		nViol++
		fmt.Printf("violation detail: %s\n", v.Detail)
		fmt.Printf("VIOLATION property=%s replay=%s\n", spec.Property, writeCmdReplay(verifDir, spec.Property, v, "go build ./cmd/fundraisingd (no tags, no ldflags)", seed))
		exit = 1
	}
	if len(samples) == 0 {
		for _, p := range sortedStrs(pairs) {
			if len(samples) < 4 {
				samples = append(samples, p)
			}
		}
	}
	wall := time.Since(start).Seconds()
	cov := map[string]interface{}{
		"evaluations":         c.runs,
		"distinct_nontrivial": len(pairs),
		"rule":                "one evaluation = one execution of the default-built fundraisingd binary (a --help of a registered command, a --generate-only transaction with seeded arguments, or a query against the simulated node); distinct = distinct (command, argument-shape) pairs; the command tree is enumerated exhaustively from the binary's own help output, argument values are sampled",
		"samples":             samples,
		"components_real":     "cmd/fundraisingd binary built from the working tree with default settings (cobra + AutoCLI + client tx factory), x/fundraising AutoCLI options, protobuf descriptors; the simulated node behind it is the real app.App",
		"components_stub":     "CometBFT RPC -> request/response shim forwarding abci_query to the simulated node; keyring -> --generate-only, the simulator signs",
	}
	for k, v := range stats {
		cov[k] = v
	}
	ev := map[string]interface{}{
		"property_id": spec.Property, "tier": tier, "seed": seed, "level": spec.Level, "coverage": cov,
		"assumptions": []string{"`fundraisingd start` against real CometBFT is not run (real sockets and clock); app.New, InitChain, FinalizeBlock, Commit and Query are exercised in-process by the simulator"},
		"wall_s":      wall, "violations": nViol,
	}
	b, _ := json.MarshalIndent(ev, "", " ")
	_ = os.MkdirAll(filepath.Join(verifDir, "evidence"), 0o755)
	_ = os.WriteFile(filepath.Join(verifDir, "evidence", spec.Property+".json"), b, 0o644)
	fmt.Printf("%s: binary executions=%d distinct command shapes=%d wall=%.1fs violations=%d known=%d\n", spec.Property, c.runs, len(pairs), wall, nViol, nKnown)
	return exit
}
