package sim

// The simulated node: a real app.App over a MemDB "disk" the simulator owns,
// with recording / fault-injecting wrappers installed through the guarded
// hook keeper.VerifInstrument (build tag verif).

import (
	"context"
	"crypto/sha256"
	"encoding/hex"
	"encoding/json"
	"errors"
	"fmt"
	"runtime/debug"
	"sort"
	"strings"
	"sync"
	"time"

	"cosmossdk.io/collections"
	"cosmossdk.io/log"
	sdkmath "cosmossdk.io/math"
	abci "github.com/cometbft/cometbft/abci/types"
	cmtproto "github.com/cometbft/cometbft/proto/tendermint/types"
	cmttypes "github.com/cometbft/cometbft/types"
	dbm "github.com/cosmos/cosmos-db"
	"github.com/cosmos/cosmos-sdk/baseapp"
	"github.com/cosmos/cosmos-sdk/client"
	"github.com/cosmos/cosmos-sdk/client/flags"
	"github.com/cosmos/cosmos-sdk/crypto/keys/ed25519"
	"github.com/cosmos/cosmos-sdk/crypto/keys/secp256k1"
	cryptotypes "github.com/cosmos/cosmos-sdk/crypto/types"
	"github.com/cosmos/cosmos-sdk/server"
	simtestutil "github.com/cosmos/cosmos-sdk/testutil/sims"
	sdk "github.com/cosmos/cosmos-sdk/types"
	"github.com/cosmos/cosmos-sdk/types/address"
	"github.com/cosmos/cosmos-sdk/types/tx/signing"
	authsigning "github.com/cosmos/cosmos-sdk/x/auth/signing"
	authtx "github.com/cosmos/cosmos-sdk/x/auth/tx"
	authtypes "github.com/cosmos/cosmos-sdk/x/auth/types"
	banktypes "github.com/cosmos/cosmos-sdk/x/bank/types"
	govtypes "github.com/cosmos/cosmos-sdk/x/gov/types"

	"github.com/tendermint/fundraising/app"
	"github.com/tendermint/fundraising/x/fundraising/keeper"
	"github.com/tendermint/fundraising/x/fundraising/types"
)

const ChainID = "verif-sim-1"

var errInjected = errors.New("verif: injected failure")

// ---------------------------------------------------------------- recorder

type Call struct {
	Phase     string // "begin" | "tx" | "pre"
	TxHash    string
	BlockHash string
	Kind      string // "send" | "fund" | "inout"
	From, To  string
	Coins     string
	Injected  bool
	Err       string
}

type HookCall struct {
	Phase     string
	TxHash    string
	BlockHash string
	Listener  int
	Method    string
	Args      string
	PreStored string // observation of the store at call time (see listener)
	Injected  bool
	Raw       string // bid hooks: the bidder string exactly as the listener received it
}

type Injector struct {
	// bank failure: fail the K-th (0-based) bank/distr call of the given phase
	BankPhase  string // "" = off; "begin" | "tx"
	BankTxHash string
	BankK      int
	bankCount  int
	BankFired  bool
	// hook failure
	HookMethod   string
	HookListener int
	HookNth      int // fail on the N-th (0-based) call of that method by that listener within the armed block
	hookCount    int
	HookFired    bool
}

type Recorder struct {
	mu        sync.Mutex
	Calls     []Call
	Hooks     []HookCall
	preActive bool
	preIdx    int
	inj       *Injector
}

func (r *Recorder) phase(ctx context.Context) (phase, txh, bh string, ok bool) {
	if r.preActive {
		return "pre", fmt.Sprintf("pre:%d", r.preIdx), "", true
	}
	sctx := sdk.UnwrapSDKContext(ctx)
	if sctx.ExecMode() != sdk.ExecModeFinalize {
		return "", "", "", false
	}
	bh = hex.EncodeToString(sctx.HeaderHash())
	if tb := sctx.TxBytes(); len(tb) > 0 {
		h := sha256.Sum256(tb)
		return "tx", hex.EncodeToString(h[:]), bh, true
	}
	return "begin", "", bh, true
}

// shouldFailBank is called with the lock held.
func (r *Recorder) shouldFailBank(phase, txh string) bool {
	in := r.inj
	if in == nil || in.BankPhase == "" || in.BankPhase != phase {
		return false
	}
	if phase == "tx" && in.BankTxHash != txh {
		return false
	}
	k := in.bankCount
	in.bankCount++
	if k == in.BankK {
		in.BankFired = true
		return true
	}
	return false
}

type bankWrap struct {
	types.BankKeeper
	rec *Recorder
}

func (b *bankWrap) SendCoins(ctx context.Context, from, to sdk.AccAddress, amt sdk.Coins) error {
	phase, txh, bh, ok := b.rec.phase(ctx)
	if !ok {
		return b.BankKeeper.SendCoins(ctx, from, to, amt)
	}
	b.rec.mu.Lock()
	fail := b.rec.shouldFailBank(phase, txh)
	b.rec.mu.Unlock()
	c := Call{Phase: phase, TxHash: txh, BlockHash: bh, Kind: "send", From: from.String(), To: to.String(), Coins: amt.String()}
	var err error
	if fail {
		c.Injected = true
		err = errInjected
	} else {
		err = b.BankKeeper.SendCoins(ctx, from, to, amt)
	}
	if err != nil {
		c.Err = err.Error()
	}
	b.rec.mu.Lock()
	b.rec.Calls = append(b.rec.Calls, c)
	b.rec.mu.Unlock()
	return err
}

func (b *bankWrap) InputOutputCoins(ctx context.Context, input banktypes.Input, outputs []banktypes.Output) error {
	phase, txh, bh, ok := b.rec.phase(ctx)
	if !ok {
		return b.BankKeeper.InputOutputCoins(ctx, input, outputs)
	}
	b.rec.mu.Lock()
	fail := b.rec.shouldFailBank(phase, txh)
	b.rec.mu.Unlock()
	var err error
	if fail {
		err = errInjected
	} else {
		err = b.BankKeeper.InputOutputCoins(ctx, input, outputs)
	}
	b.rec.mu.Lock()
	for _, o := range outputs {
		c := Call{Phase: phase, TxHash: txh, BlockHash: bh, Kind: "inout", From: input.Address, To: o.Address, Coins: o.Coins.String(), Injected: fail}
		if err != nil {
			c.Err = err.Error()
		}
		b.rec.Calls = append(b.rec.Calls, c)
	}
	b.rec.mu.Unlock()
	return err
}

type distrWrap struct {
	inner types.DistrKeeper
	rec   *Recorder
}

func (d *distrWrap) FundCommunityPool(ctx context.Context, amount sdk.Coins, sender sdk.AccAddress) error {
	phase, txh, bh, ok := d.rec.phase(ctx)
	if !ok {
		return d.inner.FundCommunityPool(ctx, amount, sender)
	}
	d.rec.mu.Lock()
	fail := d.rec.shouldFailBank(phase, txh)
	d.rec.mu.Unlock()
	c := Call{Phase: phase, TxHash: txh, BlockHash: bh, Kind: "fund", From: sender.String(), To: PoolAddr, Coins: amount.String()}
	var err error
	if fail {
		c.Injected = true
		err = errInjected
	} else {
		err = d.inner.FundCommunityPool(ctx, amount, sender)
	}
	if err != nil {
		c.Err = err.Error()
	}
	d.rec.mu.Lock()
	d.rec.Calls = append(d.rec.Calls, c)
	d.rec.mu.Unlock()
	return err
}

// ---------------------------------------------------------------- accounts

type Actor struct {
	Priv   cryptotypes.PrivKey
	Addr   sdk.AccAddress
	Bech   string
	AccNum uint64
}

func MakeActors(n int) []Actor {
	out := make([]Actor, n)
	for i := 0; i < n; i++ {
		pk := secp256k1.GenPrivKeyFromSecret([]byte(fmt.Sprintf("verif-actor-%d", i)))
		addr := sdk.AccAddress(pk.PubKey().Address())
		out[i] = Actor{Priv: pk, Addr: addr, Bech: addr.String()}
	}
	return out
}

func EscrowAddr(kind string, id uint64) string {
	var prefix string
	switch kind {
	case "selling":
		prefix = "SellingReserveAddress"
	case "paying":
		prefix = "PayingReserveAddress"
	case "vesting":
		prefix = "VestingReserveAddress"
	default:
		panic("escrow kind " + kind)
	}
	return sdk.AccAddress(address.Module("fundraising", []byte(prefix+"|"+fmt.Sprint(id)))).String()
}

// escrowDerivationProblem: a pure-function probe, not simulation (reported as such in DESIGN.md): a
// run has at most a handful of auctions, but the three escrow addresses of an auction are a function of
// its id alone and must be distinct for all ids. Once per process the implementation's derivation is
// compared with the independent one above for the ids 0..4095, ids around powers of two and 2^64-1, and
// all derived addresses must be pairwise different.
var (
	escrowProbeOnce sync.Once
	escrowProbeMsg  string
)

func escrowDerivationProblem() string {
	escrowProbeOnce.Do(func() {
		ids := make([]uint64, 0, 4400)
		for i := uint64(0); i < 4096; i++ {
			ids = append(ids, i)
		}
		for sh := uint(12); sh < 64; sh++ {
			ids = append(ids, uint64(1)<<sh-1, uint64(1)<<sh, uint64(1)<<sh+1)
		}
		ids = append(ids, ^uint64(0))
		seen := map[string]string{}
		done := map[uint64]bool{}
		for _, id := range ids {
			if done[id] {
				continue
			}
			done[id] = true
			for _, kd := range []struct {
				kind string
				f    func(uint64) sdk.AccAddress
			}{{"selling", types.SellingReserveAddress}, {"paying", types.PayingReserveAddress}, {"vesting", types.VestingReserveAddress}} {
				got := kd.f(id).String()
				if want := EscrowAddr(kd.kind, id); got != want {
					escrowProbeMsg = fmt.Sprintf("the %s escrow address derived for auction id %d is %s, the documented derivation gives %s", kd.kind, id, got, want)
					return
				}
				who := fmt.Sprintf("%s escrow of auction %d", kd.kind, id)
				if prev, dup := seen[got]; dup {
					escrowProbeMsg = fmt.Sprintf("the %s and the %s share the address %s", prev, who, got)
					return
				}
				seen[got] = who
			}
		}
	})
	return escrowProbeMsg
}

// ---------------------------------------------------------------- node

type Node struct {
	Name    string
	DB      *dbm.MemDB
	App     *app.App
	Rec     *Recorder
	TxCfg   client.TxConfig
	Height  int64
	LastT   int64
	NListen int
	Listen  []*Listener
	Trace   *traceBuf
	// Fresh: InitChain ran and nothing is committed yet; the genesis state lives only in
	// BaseApp's finalize-block state, which the next FinalizeBlock reuses.
	Fresh    bool
	Tainted  string // C15: set when the import already differed from the exporter in a recorded way
	JoinedAt int
}

func appOpts() simtestutil.AppOptionsMap {
	return simtestutil.AppOptionsMap{
		flags.FlagHome:            "/nonexistent/verif-home",
		server.FlagInvCheckPeriod: uint(0),
	}
}

// openApp builds an App over the node's DB (first start or restart after a
// crash). Only what the DB holds survives.
func (n *Node) openApp() error {
	rec := n.Rec
	n.Listen = nil
	for i := 0; i < n.NListen; i++ {
		n.Listen = append(n.Listen, &Listener{idx: i, rec: rec})
	}
	keeper.VerifInstrument = func(k *keeper.Keeper) {
		k.VerifSetBank(&bankWrap{BankKeeper: k.VerifBank(), rec: rec})
		k.VerifSetDistr(&distrWrap{inner: k.VerifDistr(), rec: rec})
		if n.NListen > 0 {
			hs := make([]types.FundraisingHooks, 0, n.NListen)
			for _, l := range n.Listen {
				l.k = k
				hs = append(hs, l)
			}
			// three listeners are registered the way two modules would register them: a group of two
			// inside the outer group (the same listeners in the same order as the flat registration)
			if len(hs) == 3 {
				k.VerifSetHooks(types.NewMultiFundraisingHooks(types.NewMultiFundraisingHooks(hs[0], hs[1]), hs[2]))
			} else {
				k.VerifSetHooks(types.NewMultiFundraisingHooks(hs...))
			}
		}
	}
	defer func() { keeper.VerifInstrument = nil }()
	var tw *traceBuf
	if n.Trace != nil {
		tw = n.Trace
	}
	var a *app.App
	var err error
	if tw != nil {
		a, err = app.New(log.NewNopLogger(), n.DB, tw, true, appOpts(), baseapp.SetChainID(ChainID))
	} else {
		a, err = app.New(log.NewNopLogger(), n.DB, nil, true, appOpts(), baseapp.SetChainID(ChainID))
	}
	if err != nil {
		return err
	}
	n.App = a
	n.TxCfg = authtx.NewTxConfig(a.AppCodec(), authtx.DefaultSignModes)
	for _, l := range n.Listen {
		l.app = a
	}
	return nil
}

type GenesisSpec struct {
	Actors    []Actor
	Balances  map[string]map[string]*sdkInt // bech32 -> denom -> amount
	Params    types.Params
	GenesisNs int64
}

type sdkInt = sdkmath.Int

type dbmMem = dbm.MemDB

func valKey() cryptotypes.PrivKey { return ed25519.GenPrivKeyFromSecret([]byte("verif-validator")) }

func buildGenesis(a *app.App, g *GenesisSpec) ([]byte, error) {
	gs := a.DefaultGenesis()
	vpk := valKey().PubKey()
	cmtPk, err := cmtPubKey(vpk)
	if err != nil {
		return nil, err
	}
	val := cmttypes.NewValidator(cmtPk, 1)
	valSet := cmttypes.NewValidatorSet([]*cmttypes.Validator{val})
	var accs []authtypes.GenesisAccount
	var bals []banktypes.Balance
	for i, ac := range g.Actors {
		accs = append(accs, authtypes.NewBaseAccount(ac.Addr, ac.Priv.PubKey(), uint64(i), 0))
		var coins sdk.Coins
		denoms := make([]string, 0)
		for d := range g.Balances[ac.Bech] {
			denoms = append(denoms, d)
		}
		sort.Strings(denoms)
		for _, d := range denoms {
			v := *g.Balances[ac.Bech][d]
			if v.IsPositive() {
				coins = coins.Add(sdk.NewCoin(d, v))
			}
		}
		bals = append(bals, banktypes.Balance{Address: ac.Bech, Coins: coins})
	}
	gs, err = simtestutil.GenesisStateWithValSet(a.AppCodec(), gs, valSet, accs, bals...)
	if err != nil {
		return nil, err
	}
	fg := types.DefaultGenesis()
	fg.Params = g.Params
	gs[types.ModuleName] = a.AppCodec().MustMarshalJSON(fg)
	return json.Marshal(gs)
}

// NewNode creates a node with an empty disk, runs InitChain and the first
// (empty) block.
func NewNode(name string, g *GenesisSpec, listeners int, trace bool) (*Node, error) {
	n := &Node{Name: name, DB: dbm.NewMemDB(), Rec: &Recorder{inj: &Injector{}}, NListen: listeners}
	if trace {
		n.Trace = &traceBuf{}
	}
	if err := n.openApp(); err != nil {
		return nil, err
	}
	state, err := buildGenesis(n.App, g)
	if err != nil {
		return nil, err
	}
	return n, n.initChain(state, 1, g.GenesisNs)
}

func consensusParams() *cmtproto.ConsensusParams {
	cp := simtestutil.DefaultConsensusParams
	c := *cp
	blk := *cp.Block
	blk.MaxGas = -1
	c.Block = &blk
	return &c
}

func (n *Node) initChain(state []byte, initialHeight int64, genesisNs int64) error {
	_, err := n.App.InitChain(&abci.RequestInitChain{
		ChainId:         ChainID,
		AppStateBytes:   state,
		ConsensusParams: consensusParams(),
		InitialHeight:   initialHeight,
		Time:            time.Unix(0, genesisNs).UTC(),
	})
	if err != nil {
		return err
	}
	n.Height = initialHeight - 1
	n.LastT = genesisNs
	n.Fresh = true
	// first block: empty, commits genesis
	_, err = n.RunBlock(genesisNs+1, nil, nil)
	return err
}

func blockHash(height int64, timeNs int64, txs [][]byte, salt string) []byte {
	h := sha256.New()
	fmt.Fprintf(h, "%d|%d|%s|", height, timeNs, salt)
	for _, t := range txs {
		h.Write(t)
	}
	return h.Sum(nil)
}

func (n *Node) finalizeReq(timeNs int64, txs [][]byte, salt string) *abci.RequestFinalizeBlock {
	return &abci.RequestFinalizeBlock{
		Height: n.Height + 1,
		Time:   time.Unix(0, timeNs).UTC(),
		Txs:    txs,
		Hash:   blockHash(n.Height+1, timeNs, txs, salt),
	}
}

type BlockResult struct {
	PanicAt string // first frame of the module on the panicking stack
	Resp    *abci.ResponseFinalizeBlock
	Err     error
	Panic   string
	AppHash []byte
	Calls   []Call
	Hooks   []HookCall
	Hash    string
}

// Finalize runs FinalizeBlock (without Commit), recovering panics.
func (n *Node) Finalize(timeNs int64, txs [][]byte, oe string) (br BlockResult) {
	req := n.finalizeReq(timeNs, txs, "")
	br.Hash = hex.EncodeToString(req.Hash)
	defer func() {
		if r := recover(); r != nil {
			br.Panic = fmt.Sprint(r)
			br.PanicAt = panicSite(string(debug.Stack()))
		}
		n.Rec.mu.Lock()
		for _, c := range n.Rec.Calls {
			if c.Phase == "pre" || c.BlockHash == br.Hash {
				br.Calls = append(br.Calls, c)
			}
		}
		for _, c := range n.Rec.Hooks {
			if c.Phase == "pre" || c.BlockHash == br.Hash {
				br.Hooks = append(br.Hooks, c)
			}
		}
		n.Rec.mu.Unlock()
	}()
	switch oe {
	case FOEAbort:
		// a different proposal is processed first: optimistic execution starts and must be aborted
		alt := n.finalizeReq(timeNs+1, nil, "alt")
		_, _ = n.App.ProcessProposal(&abci.RequestProcessProposal{Height: alt.Height, Time: alt.Time, Txs: alt.Txs, Hash: alt.Hash})
	case FOEHit:
		_, _ = n.App.ProcessProposal(&abci.RequestProcessProposal{Height: req.Height, Time: req.Time, Txs: req.Txs, Hash: req.Hash})
	}
	br.Resp, br.Err = n.App.FinalizeBlock(req)
	return br
}

func (n *Node) Commit(timeNs int64) error {
	if _, err := n.App.Commit(); err != nil {
		return err
	}
	n.Height++
	n.LastT = timeNs
	n.Fresh = false
	return nil
}

// ResetRec clears the call record; the executor calls it at the start of a
// block, before the keeper-API operations that precede it.
func (n *Node) ResetRec() {
	n.Rec.mu.Lock()
	n.Rec.Calls = nil
	n.Rec.Hooks = nil
	n.Rec.mu.Unlock()
}

// RunBlock = Finalize + Commit for fault-free internal use.
func (n *Node) RunBlock(timeNs int64, txs [][]byte, pre func()) (BlockResult, error) {
	n.ResetRec()
	if pre != nil {
		pre()
	}
	br := n.Finalize(timeNs, txs, "")
	if br.Panic != "" {
		return br, fmt.Errorf("panic: %s", br.Panic)
	}
	if br.Err != nil {
		return br, br.Err
	}
	return br, n.Commit(timeNs)
}

// Restart: the process dies; only the DB survives.
func (n *Node) Restart() error {
	n.App = nil
	inj := n.Rec.inj
	n.Rec = &Recorder{inj: inj}
	return n.openApp()
}

func cloneDB(src *dbm.MemDB) *dbm.MemDB {
	dst := dbm.NewMemDB()
	it, err := src.Iterator(nil, nil)
	if err != nil {
		panic(err)
	}
	defer it.Close()
	for ; it.Valid(); it.Next() {
		k := append([]byte{}, it.Key()...)
		v := append([]byte{}, it.Value()...)
		if err := dst.Set(k, v); err != nil {
			panic(err)
		}
	}
	return dst
}

// Fork: a scratch replica started from a copy of this node's disk.
func (n *Node) Fork(name string) (*Node, error) {
	f := &Node{Name: name, DB: cloneDB(n.DB), Rec: &Recorder{inj: &Injector{}}, NListen: n.NListen, Height: n.Height, LastT: n.LastT}
	return f, f.openApp()
}

// ReadCtx: a context over the last committed state.
func (n *Node) ReadCtx() sdk.Context {
	if n.Fresh {
		return n.App.BaseApp.NewContextLegacy(false, cmtproto.Header{Height: n.Height + 1, Time: time.Unix(0, n.LastT).UTC(), ChainID: ChainID})
	}
	return n.App.BaseApp.NewUncachedContext(false, cmtproto.Header{Height: n.Height, Time: time.Unix(0, n.LastT).UTC(), ChainID: ChainID})
}

// ---------------------------------------------------------------- tx building

func (n *Node) SignTx(ac *Actor, seq uint64, msgs ...sdk.Msg) ([]byte, error) {
	txb := n.TxCfg.NewTxBuilder()
	if err := txb.SetMsgs(msgs...); err != nil {
		return nil, err
	}
	txb.SetGasLimit(1_000_000_000_000)
	txb.SetMemo("")
	mode := signing.SignMode_SIGN_MODE_DIRECT
	sig := signing.SignatureV2{PubKey: ac.Priv.PubKey(), Data: &signing.SingleSignatureData{SignMode: mode}, Sequence: seq}
	if err := txb.SetSignatures(sig); err != nil {
		return nil, err
	}
	sd := authsigning.SignerData{Address: ac.Bech, ChainID: ChainID, AccountNumber: ac.AccNum, Sequence: seq, PubKey: ac.Priv.PubKey()}
	bz, err := authsigning.GetSignBytesAdapter(context.Background(), n.TxCfg.SignModeHandler(), mode, sd, txb.GetTx())
	if err != nil {
		return nil, err
	}
	s, err := ac.Priv.Sign(bz)
	if err != nil {
		return nil, err
	}
	sig.Data = &signing.SingleSignatureData{SignMode: mode, Signature: s}
	if err := txb.SetSignatures(sig); err != nil {
		return nil, err
	}
	return n.TxCfg.TxEncoder()(txb.GetTx())
}

func txHashHex(b []byte) string {
	h := sha256.Sum256(b)
	return hex.EncodeToString(h[:])
}

// ---------------------------------------------------------------- keeper-API ops ("another module")

func (n *Node) govAuthority() string {
	return authtypes.NewModuleAddress(govtypes.ModuleName).String()
}

// ApplyPre executes fn on a cache of the uncommitted root store and writes it
// back only on success, like a message of another module would.
func (n *Node) ApplyPre(idx int, fn func(ctx sdk.Context) error) (err error) {
	var base sdk.Context
	if n.Fresh {
		base = n.App.BaseApp.NewContextLegacy(false, cmtproto.Header{Height: n.Height + 1, Time: time.Unix(0, n.LastT).UTC(), ChainID: ChainID})
	} else {
		base = n.App.BaseApp.NewUncachedContext(false, cmtproto.Header{Height: n.Height + 1, Time: time.Unix(0, n.LastT).UTC(), ChainID: ChainID})
	}
	cctx, write := base.CacheContext()
	n.Rec.mu.Lock()
	n.Rec.preActive = true
	n.Rec.preIdx = idx
	n.Rec.mu.Unlock()
	defer func() {
		n.Rec.mu.Lock()
		n.Rec.preActive = false
		n.Rec.mu.Unlock()
		if r := recover(); r != nil {
			err = fmt.Errorf("panic: %v", r)
		}
	}()
	if err = fn(cctx); err != nil {
		return err
	}
	write()
	return nil
}

var _ = collections.ErrNotFound

// panicSite: the first x/fundraising frame (function and file:line) of a panic's stack.
func panicSite(stack string) string {
	lines := strings.Split(stack, "\n")
	for i, ln := range lines {
		if strings.Contains(ln, "tendermint/fundraising/x/fundraising") && !strings.HasPrefix(strings.TrimSpace(ln), "/") && i+1 < len(lines) {
			fn := ln
			if j := strings.Index(fn, "("); j > 0 {
				fn = fn[:j]
			}
			if j := strings.LastIndex(fn, "/"); j >= 0 {
				fn = fn[j+1:]
			}
			loc := strings.TrimSpace(lines[i+1])
			if j := strings.Index(loc, " +"); j > 0 {
				loc = loc[:j]
			}
			return fn + " @ " + loc
		}
	}
	return ""
}
