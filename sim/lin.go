package sim

// C06: linearizability of the fixed-price bid API against a tiny sequential
// model (remaining supply, used allowance per bidder), checked with porcupine.
// Clients submit transactions "at once"; the simulated mempool/proposer picks
// the order. All transactions of one block are concurrent operations (every
// invoke precedes every return of that block); blocks are sequential. Stamps
// are the simulator's global event sequence numbers.

import (
	"fmt"
	"math/big"
	"sort"
	"strings"
	"time"

	"github.com/anishathalye/porcupine"
)

type linIn struct {
	Kind   string // "bid" | "read"
	Bidder string
	Q      string
	Cap    string
	Static bool // some other precondition fails: must be rejected whatever the state
}

type linOut struct {
	Accepted  bool
	Remaining string
}

type linRecorder struct {
	seq   int64
	ops   map[uint64][]porcupine.Operation
	init  map[uint64]string
	count map[uint64]int
}

func newLinRecorder() *linRecorder {
	return &linRecorder{ops: map[uint64][]porcupine.Operation{}, init: map[uint64]string{}, count: map[uint64]int{}}
}

const linMaxOps = 40

// linState encoding: "remaining|bidder=used,bidder=used"
func linDecode(s string) (*big.Int, map[string]*big.Int) {
	parts := strings.SplitN(s, "|", 2)
	rem := bigFromStr(parts[0])
	used := map[string]*big.Int{}
	if len(parts) > 1 && parts[1] != "" {
		for _, kv := range strings.Split(parts[1], ",") {
			x := strings.SplitN(kv, "=", 2)
			used[x[0]] = bigFromStr(x[1])
		}
	}
	return rem, used
}

func linEncode(rem *big.Int, used map[string]*big.Int) string {
	ks := make([]string, 0, len(used))
	for k := range used {
		ks = append(ks, k)
	}
	sort.Strings(ks)
	var sb strings.Builder
	sb.WriteString(rem.String())
	sb.WriteString("|")
	for i, k := range ks {
		if i > 0 {
			sb.WriteString(",")
		}
		sb.WriteString(k + "=" + used[k].String())
	}
	return sb.String()
}

func linModel(init string) porcupine.Model {
	return porcupine.Model{
		Init: func() interface{} { return init },
		Step: func(state, input, output interface{}) (bool, interface{}) {
			st := state.(string)
			in := input.(linIn)
			out := output.(linOut)
			rem, used := linDecode(st)
			if in.Kind == "read" {
				return out.Remaining == rem.String(), st
			}
			q, cap := bigFromStr(in.Q), bigFromStr(in.Cap)
			u := used[in.Bidder]
			if u == nil {
				u = new(big.Int)
			}
			ok := !in.Static && q.Cmp(rem) <= 0 && new(big.Int).Add(u, q).Cmp(cap) <= 0
			if ok != out.Accepted {
				return false, st
			}
			if !ok {
				return true, st
			}
			used[in.Bidder] = new(big.Int).Add(u, q)
			return true, linEncode(new(big.Int).Sub(rem, q), used)
		},
		Equal: func(a, b interface{}) bool { return a.(string) == b.(string) },
		DescribeOperation: func(input, output interface{}) string {
			return fmt.Sprintf("%+v -> %+v", input, output)
		},
	}
}

// recordBlock adds this block's fixed-price bid operations and a read of the
// published remainder of every open fixed-price auction.
func (e *execState) linRecordBlock(bo *blockObs) {
	l := e.lin
	if l == nil {
		return
	}
	type pend struct {
		auc uint64
		op  porcupine.Operation
	}
	var ps []pend
	for i := range bo.Txs {
		o := &bo.Txs[i]
		tx := &bo.Blk.Txs[o.Idx]
		if tx.Msg.Kind != KPlaceBid || tx.Msg.AuctionID >= uint64(len(bo.Cur.Auctions)) {
			continue
		}
		a := &bo.Cur.Auctions[tx.Msg.AuctionID]
		if a.Type != TypeFixed || l.count[a.ID] >= linMaxOps {
			continue
		}
		if _, ok := l.init[a.ID]; !ok {
			continue // created in this block: history starts at the next one
		}
		in := linIn{Kind: "bid", Bidder: e.addrOf(tx.Msg.Who), Cap: "0"}
		if c, ok := a.Allowed[in.Bidder]; ok {
			in.Cap = c
		}
		r := o.Model.Reason
		dynamic := o.Model.OK || strings.Contains(r, "remainder does not cover") || strings.Contains(r, "allowance exceeded")
		in.Static = !dynamic
		q := new(big.Int)
		if dynamic && tx.Msg.Coin != nil {
			b := SBid{Denom: tx.Msg.Coin.Denom, Amt: tx.Msg.Coin.Amount, Price: a.StartPrice}
			q = sbidQty(a, &b)
		}
		in.Q = q.String()
		l.seq++
		ps = append(ps, pend{a.ID, porcupine.Operation{ClientId: tx.Actor*2 + o.Copy, Input: in, Call: l.seq, Output: linOut{Accepted: o.Code == 0}}})
		l.count[a.ID]++
	}
	for i := range ps {
		l.seq++
		ps[i].op.Return = l.seq
		l.ops[ps[i].auc] = append(l.ops[ps[i].auc], ps[i].op)
	}
	for i := range bo.Cur.Auctions {
		a := &bo.Cur.Auctions[i]
		if a.Type != TypeFixed {
			continue
		}
		if _, ok := l.init[a.ID]; !ok {
			// initial state: as first observed (bids of the creating block included)
			used := map[string]*big.Int{}
			for j := range a.Bids {
				b := &a.Bids[j]
				if used[b.Bidder] == nil {
					used[b.Bidder] = new(big.Int)
				}
				used[b.Bidder].Add(used[b.Bidder], sbidQty(a, b))
			}
			if a.Status == StCancelled {
				continue
			}
			l.init[a.ID] = linEncode(bigFromStr(a.Remaining), used)
			continue
		}
		if a.Status == StStarted && l.count[a.ID] < linMaxOps {
			l.seq++
			op := porcupine.Operation{ClientId: 1000, Input: linIn{Kind: "read"}, Call: l.seq, Output: linOut{Remaining: a.Remaining}}
			l.seq++
			op.Return = l.seq
			l.ops[a.ID] = append(l.ops[a.ID], op)
			l.count[a.ID]++
		}
	}
}

func (e *execState) linCheck() {
	l := e.lin
	if l == nil {
		return
	}
	ids := make([]uint64, 0, len(l.ops))
	for id := range l.ops {
		ids = append(ids, id)
	}
	sort.Slice(ids, func(i, j int) bool { return ids[i] < ids[j] })
	for _, id := range ids {
		ops := l.ops[id]
		nb := 0
		for _, o := range ops {
			if o.Input.(linIn).Kind == "bid" {
				nb++
			}
		}
		if nb == 0 {
			continue
		}
		r := porcupine.CheckOperationsTimeout(linModel(l.init[id]), ops, 10*time.Second)
		switch r {
		case porcupine.Ok:
			e.res.Stats.Porcupine["histories_ok"]++
			e.res.Stats.Porcupine["operations"] += len(ops)
		case porcupine.Unknown:
			e.res.Stats.Porcupine["histories_unknown"]++
		case porcupine.Illegal:
			e.res.Stats.Porcupine["histories_illegal"]++
			e.res.addV("C06", "linearizability", "fixed-price-bids", fmt.Sprintf("auction %d: the history of %d bid/read operations is not linearizable against (remaining, used allowance): some accepted bid oversold the remainder or allowance, or a published remainder matches no order of the accepted bids", id, len(ops)), len(e.s.Blocks)-1, -1)
		}
	}
}
