package sim

// Read-out of the implementation's committed state and of the model into a
// common, comparable form.

import (
	"fmt"
	"math/big"
	"sort"
	"time"

	"cosmossdk.io/collections"
	sdk "github.com/cosmos/cosmos-sdk/types"

	"github.com/tendermint/fundraising/x/fundraising/types"
)

type SBid struct {
	AuctionID uint64
	ID        uint64
	Bidder    string
	Type      int32
	Price     string
	Denom     string
	Amt       string
	Matched   bool
}

type SQueue struct {
	AuctionID  uint64
	ReleaseNs  int64
	Amt        string
	Denom      string
	Auctioneer string
	Released   bool
}

type SAuction struct {
	ID           uint64
	Type         int
	Auctioneer   string
	SellEscrow   string
	PayEscrow    string
	VestEscrow   string
	StartPrice   string
	MinBidPrice  string
	SellDenom    string
	SellAmt      string
	PayDenom     string
	Vesting      []string
	MaxExtRound  uint32
	ExtRate      string
	StartNs      int64
	EndTimes     []int64
	Status       int
	Remaining    string
	MatchedPrice string
	LastMatched  int64
	BidSeq       uint64
	Bids         []SBid
	Allowed      map[string]string
	Queue        []SQueue
}

type Snap struct {
	Auctions    []SAuction
	AuctionSeq  uint64
	CreationFee string
	BidFee      string
	ExtPeriod   uint32
	Bal         map[string]map[string]string
	Orphans     []string // records whose auction does not exist
}

func coinsStr(cs []MCoin) string {
	s := ""
	for i, c := range cs {
		if i > 0 {
			s += ","
		}
		s += c.Amt.String() + c.Denom
	}
	return s
}

func SnapFromModel(m *Model, tracked []string) *Snap {
	s := &Snap{AuctionSeq: uint64(len(m.Auctions)), CreationFee: coinsStr(m.Params.CreationFee), BidFee: coinsStr(m.Params.BidFee),
		ExtPeriod: m.Params.ExtPeriod, Bal: map[string]map[string]string{}}
	for _, a := range m.Auctions {
		sa := SAuction{ID: a.ID, Type: a.Type, Auctioneer: a.Auctioneer, SellEscrow: a.SellEscrow, PayEscrow: a.PayEscrow, VestEscrow: a.VestEscrow,
			StartPrice: decString(a.StartPrice), SellDenom: a.SellDenom, SellAmt: a.SellAmt.String(), PayDenom: a.PayDenom,
			MaxExtRound: a.MaxExtRound, StartNs: a.StartNs, EndTimes: append([]int64{}, a.EndTimes...), Status: a.Status,
			LastMatched: a.LastMatched, BidSeq: uint64(len(a.Bids)), Allowed: map[string]string{}}
		if a.Type == TypeFixed {
			sa.Remaining = a.Remaining.String()
		} else {
			sa.MinBidPrice = decString(a.MinBidPrice)
			sa.ExtRate = decString(a.ExtRate)
			sa.MatchedPrice = decString(a.MatchedPrice)
		}
		for _, v := range a.Vesting {
			sa.Vesting = append(sa.Vesting, fmt.Sprintf("%d:%s", v.ReleaseNs, decString(v.Weight)))
		}
		for _, b := range a.Bids {
			sa.Bids = append(sa.Bids, SBid{AuctionID: a.ID, ID: b.ID, Bidder: b.Bidder, Type: b.Type, Price: decString(b.Price), Denom: b.Denom, Amt: b.Amt.String(), Matched: b.Matched})
		}
		for k, v := range a.Allowed {
			sa.Allowed[k] = v.String()
		}
		for _, q := range a.Queue {
			sa.Queue = append(sa.Queue, SQueue{AuctionID: a.ID, ReleaseNs: q.ReleaseNs, Amt: q.Amt.String(), Denom: a.PayDenom, Auctioneer: a.Auctioneer, Released: q.Released})
		}
		s.Auctions = append(s.Auctions, sa)
	}
	for _, addr := range tracked {
		s.Bal[addr] = map[string]string{}
		for d, v := range m.Bal[addr] {
			if v.Sign() != 0 {
				s.Bal[addr][d] = v.String()
			}
		}
	}
	return s
}

func SnapFromImpl(n *Node, tracked []string) (s *Snap, err error) {
	defer func() {
		if r := recover(); r != nil {
			err = fmt.Errorf("read-out panic: %v", r)
		}
	}()
	ctx := n.ReadCtx()
	k := n.App.FundraisingKeeper
	s = &Snap{Bal: map[string]map[string]string{}}
	p, err := k.Params.Get(ctx)
	if err != nil {
		return nil, err
	}
	s.CreationFee, s.BidFee, s.ExtPeriod = sdk.Coins(p.AuctionCreationFee).String(), sdk.Coins(p.PlaceBidFee).String(), p.ExtendedPeriod
	s.AuctionSeq, err = k.AuctionSeq.Peek(ctx)
	if err != nil {
		return nil, err
	}
	byID := map[uint64]*SAuction{}
	var ids []uint64
	err = k.Auction.Walk(ctx, nil, func(key uint64, a types.AuctionI) (bool, error) {
		sa := &SAuction{ID: a.GetId(), Type: int(a.GetType()), Auctioneer: a.GetAuctioneer().String(),
			SellEscrow: a.GetSellingReserveAddress().String(), PayEscrow: a.GetPayingReserveAddress().String(), VestEscrow: a.GetVestingReserveAddress().String(),
			StartPrice: a.GetStartPrice().String(), SellDenom: a.GetSellingCoin().Denom, SellAmt: a.GetSellingCoin().Amount.String(),
			PayDenom: a.GetPayingCoinDenom(), StartNs: nsOf(a.GetStartTime()), Status: int(a.GetStatus()), Allowed: map[string]string{}}
		if key != a.GetId() {
			s.Orphans = append(s.Orphans, fmt.Sprintf("auction key %d holds id %d", key, a.GetId()))
		}
		for _, t := range a.GetEndTimes() {
			sa.EndTimes = append(sa.EndTimes, nsOf(t))
		}
		for _, v := range a.GetVestingSchedules() {
			sa.Vesting = append(sa.Vesting, fmt.Sprintf("%d:%s", nsOf(v.ReleaseTime), v.Weight.String()))
		}
		switch t := a.(type) {
		case *types.FixedPriceAuction:
			sa.Remaining = t.RemainingSellingCoin.Amount.String()
			if t.RemainingSellingCoin.Denom != sa.SellDenom {
				sa.Remaining += t.RemainingSellingCoin.Denom
			}
		case *types.BatchAuction:
			sa.MinBidPrice = t.MinBidPrice.String()
			sa.ExtRate = t.ExtendedRoundRate.String()
			sa.MatchedPrice = t.MatchedPrice.String()
			sa.MaxExtRound = t.MaxExtendedRound
		}
		byID[key] = sa
		ids = append(ids, key)
		return false, nil
	})
	if err != nil {
		return nil, err
	}
	err = k.MatchedBidsLen.Walk(ctx, nil, func(id uint64, v int64) (bool, error) {
		if a, ok := byID[id]; ok {
			a.LastMatched = v
		} else {
			s.Orphans = append(s.Orphans, fmt.Sprintf("matchedBidsLen for missing auction %d", id))
		}
		return false, nil
	})
	if err != nil {
		return nil, err
	}
	err = k.BidSeq.Walk(ctx, nil, func(id uint64, v uint64) (bool, error) {
		if a, ok := byID[id]; ok {
			a.BidSeq = v
		} else {
			s.Orphans = append(s.Orphans, fmt.Sprintf("bid counter for missing auction %d", id))
		}
		return false, nil
	})
	if err != nil {
		return nil, err
	}
	err = k.Bid.Walk(ctx, nil, func(key collections.Pair[uint64, uint64], b types.Bid) (bool, error) {
		sb := SBid{AuctionID: b.AuctionId, ID: b.Id, Bidder: canonAddr(b.Bidder), Type: int32(b.Type), Price: b.Price.String(), Denom: b.Coin.Denom, Amt: b.Coin.Amount.String(), Matched: b.IsMatched}
		a, ok := byID[key.K1()]
		if !ok || key.K1() != b.AuctionId || key.K2() != b.Id {
			s.Orphans = append(s.Orphans, fmt.Sprintf("bid key (%d,%d) holds (%d,%d)", key.K1(), key.K2(), b.AuctionId, b.Id))
			return false, nil
		}
		a.Bids = append(a.Bids, sb)
		return false, nil
	})
	if err != nil {
		return nil, err
	}
	err = k.AllowedBidder.Walk(ctx, nil, func(key collections.Pair[uint64, sdk.AccAddress], ab types.AllowedBidder) (bool, error) {
		a, ok := byID[key.K1()]
		if !ok || ab.AuctionId != key.K1() || ab.Bidder != key.K2().String() {
			s.Orphans = append(s.Orphans, fmt.Sprintf("allowed bidder key (%d,%s) holds (%d,%s)", key.K1(), key.K2(), ab.AuctionId, ab.Bidder))
			return false, nil
		}
		a.Allowed[ab.Bidder] = ab.MaxBidAmount.String()
		return false, nil
	})
	if err != nil {
		return nil, err
	}
	err = k.VestingQueue.Walk(ctx, nil, func(key collections.Pair[uint64, time.Time], q types.VestingQueue) (bool, error) {
		a, ok := byID[key.K1()]
		if !ok || q.AuctionId != key.K1() || !q.ReleaseTime.Equal(key.K2()) {
			s.Orphans = append(s.Orphans, fmt.Sprintf("vesting queue key (%d,%d) holds (%d,%d)", key.K1(), nsOf(key.K2()), q.AuctionId, nsOf(q.ReleaseTime)))
			return false, nil
		}
		a.Queue = append(a.Queue, SQueue{AuctionID: q.AuctionId, ReleaseNs: nsOf(q.ReleaseTime), Amt: q.PayingCoin.Amount.String(), Denom: q.PayingCoin.Denom, Auctioneer: canonAddr(q.Auctioneer), Released: q.Released})
		return false, nil
	})
	if err != nil {
		return nil, err
	}
	sort.Slice(ids, func(i, j int) bool { return ids[i] < ids[j] })
	for _, id := range ids {
		s.Auctions = append(s.Auctions, *byID[id])
	}
	for _, addr := range tracked {
		acc, err := sdk.AccAddressFromBech32(addr)
		if err != nil {
			return nil, err
		}
		s.Bal[addr] = map[string]string{}
		for _, c := range n.App.BankKeeper.GetAllBalances(ctx, acc) {
			s.Bal[addr][c.Denom] = c.Amount.String()
		}
	}
	return s, nil
}

type Diff struct {
	Auction int64 // -1 = global
	Field   string
	Model   string
	Impl    string
}

func (d Diff) String() string {
	return fmt.Sprintf("auction=%d %s: model=%s impl=%s", d.Auction, d.Field, d.Model, d.Impl)
}

func diffStr(ds *[]Diff, auc int64, field, m, i string) {
	if m != i {
		*ds = append(*ds, Diff{auc, field, m, i})
	}
}

// DiffSnaps compares model and implementation. Published-result fields
// (bid matched flags, matched price) are reported under their own field names
// so that the caller can route them to C16.
func DiffSnaps(m, i *Snap) []Diff {
	var ds []Diff
	diffStr(&ds, -1, "auction_seq", fmt.Sprint(m.AuctionSeq), fmt.Sprint(i.AuctionSeq))
	diffStr(&ds, -1, "params.creation_fee", m.CreationFee, i.CreationFee)
	diffStr(&ds, -1, "params.bid_fee", m.BidFee, i.BidFee)
	diffStr(&ds, -1, "params.ext_period", fmt.Sprint(m.ExtPeriod), fmt.Sprint(i.ExtPeriod))
	for _, o := range i.Orphans {
		ds = append(ds, Diff{-1, "orphan", "", o})
	}
	if len(m.Auctions) != len(i.Auctions) {
		ds = append(ds, Diff{-1, "auction_count", fmt.Sprint(len(m.Auctions)), fmt.Sprint(len(i.Auctions))})
	}
	for x := 0; x < len(m.Auctions) && x < len(i.Auctions); x++ {
		ma, ia := &m.Auctions[x], &i.Auctions[x]
		id := int64(ma.ID)
		diffStr(&ds, id, "id", fmt.Sprint(ma.ID), fmt.Sprint(ia.ID))
		diffStr(&ds, id, "type", fmt.Sprint(ma.Type), fmt.Sprint(ia.Type))
		diffStr(&ds, id, "auctioneer", ma.Auctioneer, ia.Auctioneer)
		diffStr(&ds, id, "selling_escrow", ma.SellEscrow, ia.SellEscrow)
		diffStr(&ds, id, "paying_escrow", ma.PayEscrow, ia.PayEscrow)
		diffStr(&ds, id, "vesting_escrow", ma.VestEscrow, ia.VestEscrow)
		diffStr(&ds, id, "start_price", ma.StartPrice, ia.StartPrice)
		diffStr(&ds, id, "min_bid_price", ma.MinBidPrice, ia.MinBidPrice)
		diffStr(&ds, id, "selling_coin", ma.SellAmt+ma.SellDenom, ia.SellAmt+ia.SellDenom)
		diffStr(&ds, id, "paying_denom", ma.PayDenom, ia.PayDenom)
		diffStr(&ds, id, "vesting_schedules", fmt.Sprint(ma.Vesting), fmt.Sprint(ia.Vesting))
		diffStr(&ds, id, "max_extended_round", fmt.Sprint(ma.MaxExtRound), fmt.Sprint(ia.MaxExtRound))
		diffStr(&ds, id, "extended_round_rate", ma.ExtRate, ia.ExtRate)
		diffStr(&ds, id, "start_time", fmt.Sprint(ma.StartNs), fmt.Sprint(ia.StartNs))
		diffStr(&ds, id, "end_times", fmt.Sprint(ma.EndTimes), fmt.Sprint(ia.EndTimes))
		diffStr(&ds, id, "status", fmt.Sprint(ma.Status), fmt.Sprint(ia.Status))
		diffStr(&ds, id, "remaining", ma.Remaining, ia.Remaining)
		diffStr(&ds, id, "matched_price", ma.MatchedPrice, ia.MatchedPrice)
		diffStr(&ds, id, "last_matched_len", fmt.Sprint(ma.LastMatched), fmt.Sprint(ia.LastMatched))
		diffStr(&ds, id, "bid_seq", fmt.Sprint(ma.BidSeq), fmt.Sprint(ia.BidSeq))
		if len(ma.Bids) != len(ia.Bids) {
			ds = append(ds, Diff{id, "bid_count", fmt.Sprint(len(ma.Bids)), fmt.Sprint(len(ia.Bids))})
		}
		for y := 0; y < len(ma.Bids) && y < len(ia.Bids); y++ {
			mb, ib := ma.Bids[y], ia.Bids[y]
			mm, im := mb.Matched, ib.Matched
			mb.Matched, ib.Matched = false, false
			if mb != ib {
				ds = append(ds, Diff{id, "bid", fmt.Sprintf("%+v", mb), fmt.Sprintf("%+v", ib)})
			}
			if mm != im {
				ds = append(ds, Diff{id, "bid_matched", fmt.Sprintf("bid %d matched=%v", mb.ID, mm), fmt.Sprintf("bid %d matched=%v", ib.ID, im)})
			}
		}
		ka := map[string]bool{}
		for k := range ma.Allowed {
			ka[k] = true
		}
		for k := range ia.Allowed {
			ka[k] = true
		}
		for _, k := range sortedBoolKeys(ka) {
			diffStr(&ds, id, "allowed["+short(k)+"]", ma.Allowed[k], ia.Allowed[k])
		}
		if len(ma.Queue) != len(ia.Queue) {
			ds = append(ds, Diff{id, "queue_count", fmt.Sprint(len(ma.Queue)), fmt.Sprint(len(ia.Queue))})
		}
		for y := 0; y < len(ma.Queue) && y < len(ia.Queue); y++ {
			mq, iq := ma.Queue[y], ia.Queue[y]
			mr, ir := mq.Released, iq.Released
			mq.Released, iq.Released = false, false
			if mq != iq {
				ds = append(ds, Diff{id, "queue", fmt.Sprintf("%+v", mq), fmt.Sprintf("%+v", iq)})
			}
			if mr != ir {
				ds = append(ds, Diff{id, "queue_released", fmt.Sprintf("%d released=%v", mq.ReleaseNs, mr), fmt.Sprintf("%d released=%v", iq.ReleaseNs, ir)})
			}
		}
	}
	ka := map[string]bool{}
	for k := range m.Bal {
		ka[k] = true
	}
	for k := range i.Bal {
		ka[k] = true
	}
	for _, addr := range sortedBoolKeys(ka) {
		kd := map[string]bool{}
		for d := range m.Bal[addr] {
			kd[d] = true
		}
		for d := range i.Bal[addr] {
			kd[d] = true
		}
		for _, d := range sortedBoolKeys(kd) {
			mv, iv := m.Bal[addr][d], i.Bal[addr][d]
			if mv == "" {
				mv = "0"
			}
			if iv == "" {
				iv = "0"
			}
			diffStr(&ds, -1, "balance["+short(addr)+"]["+d+"]", mv, iv)
		}
	}
	return ds
}

func sortedBoolKeys(m map[string]bool) []string {
	ks := make([]string, 0, len(m))
	for k := range m {
		ks = append(ks, k)
	}
	sort.Strings(ks)
	return ks
}

func bigFromStr(s string) *big.Int {
	v, ok := new(big.Int).SetString(s, 10)
	if !ok {
		return new(big.Int)
	}
	return v
}

// canonAddr: the canonical (lower-case bech32) spelling of an account address. Bech32 strings may be
// written all upper-case; the module stores the spelling the message used. Which spelling is stored is
// representation, not behaviour: records are compared by the account they name.
func canonAddr(s string) string {
	if a, err := sdk.AccAddressFromBech32(s); err == nil {
		return a.String()
	}
	return s
}
