package sim

// Execute(Schedule): drives the real application and the reference model in
// lock-step, evaluates every oracle, returns violations + reach statistics.

import (
	"crypto/sha256"
	"encoding/hex"
	"fmt"
	"math"
	"math/big"
	"os"
	"strings"
	"time"

	sdkmath "cosmossdk.io/math"
	abci "github.com/cometbft/cometbft/abci/types"
	cmtproto "github.com/cometbft/cometbft/proto/tendermint/types"
	codectypes "github.com/cosmos/cosmos-sdk/codec/types"
	sdk "github.com/cosmos/cosmos-sdk/types"
	banktypes "github.com/cosmos/cosmos-sdk/x/bank/types"

	"github.com/tendermint/fundraising/x/fundraising/keeper"
	"github.com/tendermint/fundraising/x/fundraising/types"
)

type ExecOpts struct {
	BankFailEnum  bool // C07(b): enumerate a failure of every begin-block bank call on scratch replicas
	MaxEnumBlocks int
	EnumAll       bool // enumerate in every schedule (replay of an enumeration violation)
	Queries       bool // C16: issue gRPC queries with every filter combination after blocks
	QueryEvery    int
	Trace         bool // C18/C19: per-tx KV write sets through the store tracer
	ReplayK       int  // override number of shadow replicas
	Lin           bool // C06: porcupine linearizability check of fixed-price bid histories
	StopOnDiverge bool
	OnBlock       func(e *execState, bo *blockObs) `json:"-"`
	KeepTrace     bool
	Project       bool // C19: execute the history restricted to one auction on a second replica and compare (project.go)
	collectFrames bool
}

type Stats struct {
	Blocks, Txs, TxOK, TxRejected, TxAnte int
	PreOps, PreOK                         int
	SimDays                               float64
	Faults                                map[string]int // fired
	FaultsCfg                             map[string]int // configured
	Probes                                map[string]int
	States                                map[string]bool
	Relax                                 map[string]int
	Sig                                   string
	NonTrivial                            bool
	EnumPairs                             map[string]bool // fault enumeration: distinct (operation, position) pairs
	Porcupine                             map[string]int
	QueryChecks                           int
	TraceChecks                           int
	Halted                                bool
	Diverged                              bool
}

func newStats() *Stats {
	return &Stats{Faults: map[string]int{}, FaultsCfg: map[string]int{}, Probes: map[string]int{}, States: map[string]bool{},
		Relax: map[string]int{}, EnumPairs: map[string]bool{}, Porcupine: map[string]int{}}
}

type HookSite struct {
	Block  int
	Method string
	Phase  string
}

type RunResult struct {
	HookSites  []HookSite
	Violations []Violation
	Stats      *Stats
	TraceHash  string
	TraceLines []string
	HarnessErr string
	frames     []projFrame
}

func (r *RunResult) addV(prop, rule, key, detail string, blk, tx int) {
	r.Violations = append(r.Violations, Violation{Property: prop, Rule: rule, Key: key, Detail: detail, Block: blk, Tx: tx})
}

func (r *RunResult) Has(prop string) bool {
	for _, v := range r.Violations {
		if v.Property == prop {
			return true
		}
	}
	return false
}

type txObs struct {
	Idx      int // index in Block.Txs
	Copy     int // 0 = first inclusion, 1 = duplicate
	Bytes    []byte
	Hash     string
	Code     uint32
	Log      string
	Events   []abci.Event
	Model    MResult
	Calls    []Call
	Hooks    []HookCall
	Injected bool
}

type blockObs struct {
	Idx      int
	Blk      *Block
	Prev     *Snap
	Cur      *Snap
	MPrev    *Model // model before the block
	Txs      []txObs
	Begin    []Call
	BeginFx  BlockEffects
	Resp     *abci.ResponseFinalizeBlock
	AppHash  string
	PreRes   []preObs
	AllCalls []Call
	AllHooks []HookCall
}

type preObs struct {
	Op      *Op
	ImplErr error
	Model   MResult
	Hooks   []HookCall
}

type execState struct {
	s       *Schedule
	opt     ExecOpts
	res     *RunResult
	node    *Node
	shadows []*Node
	joined  []*Node
	model   *Model
	actors  []Actor
	tracked []string
	foreign map[string]map[string]*big.Int
	lines   []string
	// cross-block oracle memory
	everBids    map[string]SBid // "auc/bid" -> first seen record
	immut       map[uint64]SAuction
	releasedAt  map[string]int // "auc/ns" -> block index of the release transfer
	statusHist  map[uint64][]int
	capAtAccept map[string]string
	paidIn      map[string]*big.Int // "auction|bidder" -> paying coins the bidder's accepted bids and modifications moved into the paying escrow
	lin         *linRecorder
	modelOff    bool // model and implementation diverged earlier in this run
	queryRng    uint64
	frames      []projFrame
}

func (e *execState) logf(format string, a ...interface{}) {
	e.lines = append(e.lines, fmt.Sprintf(format, a...))
}

func parseBalances(cfg *Config, actors []Actor) (map[string]map[string]*big.Int, map[string]map[string]*sdkInt) {
	mb := map[string]map[string]*big.Int{}
	ib := map[string]map[string]*sdkInt{}
	for i, a := range actors {
		mb[a.Bech] = map[string]*big.Int{}
		ib[a.Bech] = map[string]*sdkInt{}
		src := cfg.Balances
		if o, ok := cfg.Poor[i]; ok {
			src = o
		}
		for d, v := range src {
			b := bi(v)
			if b.Sign() <= 0 {
				continue
			}
			mb[a.Bech][d] = b
			iv := sdkmath.NewIntFromBigInt(b)
			ib[a.Bech][d] = &iv
		}
	}
	return mb, ib
}

func toSdkCoins(cs []Coin) sdk.Coins {
	out := sdk.Coins{}
	for _, c := range cs {
		amt, ok := sdkmath.NewIntFromString(c.Amount)
		if !ok {
			panic("bad amount " + c.Amount)
		}
		out = append(out, sdk.Coin{Denom: c.Denom, Amount: amt})
	}
	return out
}

func toParams(p ParamsSpec) types.Params {
	return types.Params{AuctionCreationFee: toSdkCoins(p.CreationFee), PlaceBidFee: toSdkCoins(p.BidFee), ExtendedPeriod: p.ExtPeriod}
}

func toMParams(p ParamsSpec) MParams {
	return MParams{toMCoins(p.CreationFee), toMCoins(p.BidFee), p.ExtPeriod}
}

// Instants are int64 nanoseconds in schedules, model and snapshots. Unix nanoseconds in an int64 end in
// the year 2262; the module's messages accept any protobuf timestamp (up to the year 9999). Values at or
// above FarBaseNs stand for the instants from 2300-01-01T00:00:00Z on, one to one, so that an auction
// scheduled centuries ahead - legal, and never reached by any block of a run - can be expressed, ordered
// and compared like every other instant.
const FarBaseNs = int64(9_000_000_000_000_000_000)

var farBaseTime = time.Date(2300, 1, 1, 0, 0, 0, 0, time.UTC)

func tUTC(ns int64) time.Time {
	if ns >= FarBaseNs {
		return farBaseTime.Add(time.Duration(ns - FarBaseNs))
	}
	return time.Unix(0, ns).UTC()
}

// nsOf is the inverse of tUTC (time.Time.UnixNano is undefined beyond 2262).
func nsOf(t time.Time) int64 {
	if !t.Before(farBaseTime) {
		d := t.Sub(farBaseTime) // saturates at about 292 years
		if d > time.Duration(math.MaxInt64-FarBaseNs) {
			return math.MaxInt64
		}
		return FarBaseNs + int64(d)
	}
	return t.UnixNano()
}

func toSdkCoin(c *Coin) sdk.Coin {
	amt, ok := sdkmath.NewIntFromString(c.Amount)
	if !ok {
		panic("bad amount " + c.Amount)
	}
	return sdk.Coin{Denom: c.Denom, Amount: amt}
}

func toVS(vs []VSched) []types.VestingSchedule {
	out := []types.VestingSchedule{}
	for _, v := range vs {
		out = append(out, types.VestingSchedule{ReleaseTime: tUTC(v.ReleaseNs), Weight: sdkmath.LegacyMustNewDecFromStr(v.Weight)})
	}
	return out
}

func (e *execState) addrOf(i int) string {
	if i < 0 || i >= len(e.actors) {
		return ""
	}
	return e.actors[i].Bech
}

func (e *execState) buildMsg(m *Msg) sdk.Msg {
	who := e.addrOf(m.Who)
	if m.Upper {
		who = strings.ToUpper(who)
	}
	switch m.Kind {
	case KCreateFixed:
		return &types.MsgCreateFixedPriceAuction{Auctioneer: who, StartPrice: sdkmath.LegacyMustNewDecFromStr(m.StartPrice), SellingCoin: toSdkCoin(m.SellingCoin),
			PayingCoinDenom: m.PayingDenom, VestingSchedules: toVS(m.Vesting), StartTime: tUTC(m.StartNs), EndTime: tUTC(m.EndNs)}
	case KCreateBatch:
		return &types.MsgCreateBatchAuction{Auctioneer: who, StartPrice: sdkmath.LegacyMustNewDecFromStr(m.StartPrice), MinBidPrice: sdkmath.LegacyMustNewDecFromStr(m.MinBidPrice),
			SellingCoin: toSdkCoin(m.SellingCoin), PayingCoinDenom: m.PayingDenom, VestingSchedules: toVS(m.Vesting), MaxExtendedRound: m.MaxExtRound,
			ExtendedRoundRate: sdkmath.LegacyMustNewDecFromStr(m.ExtRate), StartTime: tUTC(m.StartNs), EndTime: tUTC(m.EndNs)}
	case KCancel:
		return &types.MsgCancelAuction{Auctioneer: who, AuctionId: m.AuctionID}
	case KPlaceBid:
		return &types.MsgPlaceBid{AuctionId: m.AuctionID, Bidder: who, BidType: types.BidType(m.BidType), Price: sdkmath.LegacyMustNewDecFromStr(m.Price), Coin: toSdkCoin(m.Coin)}
	case KModifyBid:
		return &types.MsgModifyBid{AuctionId: m.AuctionID, Bidder: who, BidId: m.BidID, Price: sdkmath.LegacyMustNewDecFromStr(m.Price), Coin: toSdkCoin(m.Coin)}
	case KAddAllowed:
		amt, _ := sdkmath.NewIntFromString(m.Allowed.Max)
		return &types.MsgAddAllowedBidder{AuctionId: m.AuctionID, AllowedBidder: types.AllowedBidder{AuctionId: m.AuctionID, Bidder: who, MaxBidAmount: amt}}
	case KUpdParams:
		return &types.MsgUpdateParams{Authority: who, Params: toParams(*m.Params)}
	case KSend:
		var to string
		if m.ToKind == "actor" {
			to = e.addrOf(m.ToActor)
		} else {
			to = EscrowAddr(m.ToKind, m.ToAuction)
		}
		return &banktypes.MsgSend{FromAddress: who, ToAddress: to, Amount: toSdkCoins(m.Coins)}
	}
	panic("unknown msg kind " + m.Kind)
}

func (e *execState) applyOpImpl(n *Node, idx int, op *Op) error {
	return n.ApplyPre(idx, func(ctx sdk.Context) error {
		k := n.App.FundraisingKeeper
		switch op.Kind {
		case OAddAllowed:
			var list []types.AllowedBidder
			for _, en := range op.Entries {
				addr := en.RawAddr
				if en.Who >= 0 {
					addr = e.addrOf(en.Who)
					if en.Upper {
						addr = strings.ToUpper(addr)
					}
				}
				amt, ok := sdkmath.NewIntFromString(en.Max)
				if !ok {
					return fmt.Errorf("bad amount")
				}
				list = append(list, types.AllowedBidder{AuctionId: op.AuctionID, Bidder: addr, MaxBidAmount: amt})
			}
			return k.AddAllowedBidders(ctx, op.AuctionID, list)
		case OUpdateAllowed:
			amt, ok := sdkmath.NewIntFromString(op.Max)
			if !ok {
				return fmt.Errorf("bad amount")
			}
			return k.UpdateAllowedBidder(ctx, op.AuctionID, e.actors[op.Who].Addr, amt)
		case OUpdateParams:
			_, err := keeper.NewMsgServerImpl(k).UpdateParams(ctx, &types.MsgUpdateParams{Authority: n.govAuthority(), Params: toParams(*op.Params)})
			return err
		}
		return fmt.Errorf("unknown op %s", op.Kind)
	})
}

// normCalls: successful, committed calls as (from,to,denom,amt) entries.
func normCalls(cs []Call) []MTransfer {
	var out []MTransfer
	for _, c := range cs {
		if c.Err != "" {
			continue
		}
		// parsed by hand: sdk.ParseCoinsNormalized goes through LegacyDec and fails above 2^255
		for _, part := range strings.Split(c.Coins, ",") {
			i := 0
			for i < len(part) && part[i] >= '0' && part[i] <= '9' {
				i++
			}
			if i == 0 || i == len(part) {
				continue
			}
			amt, ok := new(big.Int).SetString(part[:i], 10)
			if !ok || amt.Sign() == 0 {
				continue
			}
			out = append(out, MTransfer{From: c.From, To: c.To, Denom: part[i:], Amt: amt})
		}
	}
	return out
}

func trKey(t MTransfer) string { return t.From + ">" + t.To + ":" + t.Amt.String() + t.Denom }

// sameTransfers compares what two transfer lists do to balances: the net change per (address,
// denomination). The properties speak of what each party pays and receives, not of how many bank calls
// carry it, so a list that splits, merges or reorders the same payments is the same behaviour
// (the order of calls is C14's and C17's business and is compared there, implementation against
// implementation).
func sameTransfers(a, b []MTransfer) (bool, string) {
	net := func(ts []MTransfer) map[string]*big.Int {
		m := map[string]*big.Int{}
		add := func(k string, v *big.Int, sign int) {
			x := m[k]
			if x == nil {
				x = new(big.Int)
				m[k] = x
			}
			if sign > 0 {
				x.Add(x, v)
			} else {
				x.Sub(x, v)
			}
		}
		for _, t := range ts {
			add(t.From+"|"+t.Denom, t.Amt, -1)
			add(t.To+"|"+t.Denom, t.Amt, +1)
		}
		return m
	}
	na, nb := net(a), net(b)
	same := true
	for k, v := range na {
		w := nb[k]
		if w == nil {
			w = new(big.Int)
		}
		if v.Cmp(w) != 0 {
			same = false
		}
	}
	for k, w := range nb {
		if na[k] == nil && w.Sign() != 0 {
			same = false
		}
	}
	if same {
		return true, ""
	}
	return false, fmt.Sprintf("model=%v impl=%v", trList(a), trList(b))
}

func trList(a []MTransfer) []string {
	out := make([]string, 0, len(a))
	for _, t := range a {
		out = append(out, t.String())
	}
	return out
}

func (e *execState) trackedAddrs(nAuctions int) []string {
	var out []string
	for _, a := range e.actors {
		out = append(out, a.Bech)
	}
	for id := 0; id < nAuctions+2; id++ {
		for _, k := range []string{"selling", "paying", "vesting"} {
			out = append(out, EscrowAddr(k, uint64(id)))
		}
	}
	return out
}

func maxInt(a, b int) int {
	if a > b {
		return a
	}
	return b
}

// Execute runs one schedule.
func Execute(s *Schedule, opt ExecOpts) (res *RunResult) {
	res = &RunResult{Stats: newStats()}
	e := &execState{s: s, opt: opt, res: res, foreign: map[string]map[string]*big.Int{}, everBids: map[string]SBid{},
		immut: map[uint64]SAuction{}, releasedAt: map[string]int{}, statusHist: map[uint64][]int{}, capAtAccept: map[string]string{}, paidIn: map[string]*big.Int{}}
	defer func() {
		if r := recover(); r != nil {
			res.HarnessErr = fmt.Sprintf("harness panic: %v", r)
		}
		h := sha256.New()
		for _, l := range e.lines {
			h.Write([]byte(l))
			h.Write([]byte{'\n'})
		}
		res.TraceHash = hex.EncodeToString(h.Sum(nil))
		if opt.KeepTrace {
			res.TraceLines = e.lines
		}
	}()
	if keeper.EnableAddAllowedBidder {
		// this process links the application like cmd/fundraisingd does and was built without the testing link flag
		res.addV("C10", "default_build.switch_on", "process", "keeper.EnableAddAllowedBidder is true in a build that does not pass the documented testing link flag", 0, -1)
	}
	if d := escrowDerivationProblem(); d != "" {
		res.addV("C19", "terms.escrow_derivation", "escrow", d, 0, -1)
	}
	e.actors = MakeActors(s.Cfg.Actors)
	mbal, ibal := parseBalances(&s.Cfg, e.actors)
	for i := range e.actors {
		e.actors[i].AccNum = uint64(i)
	}
	var addrs []string
	for _, a := range e.actors {
		addrs = append(addrs, a.Bech)
	}
	e.model = NewModel(addrs, mbal, toMParams(s.Cfg.Params), EscrowAddr)
	g := &GenesisSpec{Actors: e.actors, Balances: ibal, Params: toParams(s.Cfg.Params), GenesisNs: s.GenesisNs}
	node, err := NewNode("n0", g, s.Cfg.Listeners, opt.Trace)
	if err != nil {
		res.HarnessErr = "genesis: " + err.Error()
		return
	}
	e.node = node
	if err := e.fixAccNums(); err != nil {
		res.HarnessErr = err.Error()
		return
	}
	k := s.Cfg.Replicas
	if opt.ReplayK > 0 {
		k = opt.ReplayK
	}
	for i := 0; i < k; i++ {
		sh, err := NewNode(fmt.Sprintf("shadow%d", i), g, s.Cfg.Listeners, false)
		if err != nil {
			res.HarnessErr = "genesis shadow: " + err.Error()
			return
		}
		e.shadows = append(e.shadows, sh)
	}
	e.lin = newLinRecorder()
	if os.Getenv("VERIF_NO_MODEL") != "" {
		// measurement mode (DESIGN §12): the refinement against the reference model is switched off from
		// the start; only the oracles that read the implementation's own records, transfers and
		// responses decide
		e.modelOff = true
	}
	if node.Trace != nil {
		node.Trace.Take()
	}
	nCreate := 0
	for _, b := range s.Blocks {
		for _, t := range b.Txs {
			if t.Msg.Kind == KCreateFixed || t.Msg.Kind == KCreateBatch {
				nCreate++
				if t.Dup {
					nCreate++
				}
			}
		}
	}
	e.tracked = e.trackedAddrs(nCreate)
	prev, err := SnapFromImpl(node, e.tracked)
	if err != nil {
		res.HarnessErr = "read-out: " + err.Error()
		return
	}
	first := s.GenesisNs
	for bi := range s.Blocks {
		blk := &s.Blocks[bi]
		if blk.TimeNs <= node.LastT {
			res.HarnessErr = fmt.Sprintf("block %d time not increasing", bi)
			return
		}
		bo, cont := e.runBlock(bi, blk, prev)
		res.Stats.Blocks++
		res.Stats.SimDays = float64(blk.TimeNs-first) / 86400e9
		if bo != nil && bo.Cur != nil {
			prev = bo.Cur
		}
		if !cont {
			break
		}
	}
	if opt.Lin {
		e.linCheck()
	}
	if (s.Cfg.Profile == "genesis" || s.Cfg.Profile == "town") && !res.Stats.Halted && res.HarnessErr == "" {
		e.finalExportValidate(len(s.Blocks) - 1)
	}
	if opt.collectFrames {
		res.frames = e.frames
	}
	if opt.Project {
		e.projectionCheck()
	}
	e.finish(prev)
	return
}

func (e *execState) fixAccNums() error {
	ctx := e.node.ReadCtx()
	for i := range e.actors {
		acc := e.node.App.AccountKeeper.GetAccount(ctx, e.actors[i].Addr)
		if acc == nil {
			return fmt.Errorf("actor %d missing from genesis", i)
		}
		e.actors[i].AccNum = acc.GetAccountNumber()
	}
	return nil
}

func faultOf(blk *Block, kind string) *Fault {
	for i := range blk.Faults {
		if blk.Faults[i].Kind == kind {
			return &blk.Faults[i]
		}
	}
	return nil
}

// runBlock executes block bi on the model, then on the primary node (with the
// block's faults), compares, runs the oracles. Returns false when the run
// cannot continue (chain halted or model/implementation diverged).
func (e *execState) runBlock(bi int, blk *Block, prev *Snap) (*blockObs, bool) {
	res := e.res
	n := e.node
	bo := &blockObs{Idx: bi, Blk: blk, Prev: prev}
	e.model.BlockIdx = bi
	bo.MPrev = e.model.Clone()
	for _, f := range blk.Faults {
		res.Stats.FaultsCfg[f.Kind]++
	}
	// probe: how many start / end / release instants does this block's time step pass?
	{
		passed := 0
		for _, a := range e.model.Auctions {
			switch a.Status {
			case StStandby:
				if a.StartNs <= blk.TimeNs {
					passed++
					if a.EndTimes[0] <= blk.TimeNs {
						passed++
					}
				}
			case StStarted:
				if a.EndTimes[len(a.EndTimes)-1] <= blk.TimeNs {
					passed++
				}
			case StVesting:
				for _, q := range a.Queue {
					if !q.Released && q.ReleaseNs <= blk.TimeNs {
						passed++
					}
				}
			}
			if a.Status == StStandby && a.StartNs == blk.TimeNs || a.Status == StStarted && a.EndTimes[len(a.EndTimes)-1] == blk.TimeNs {
				res.Stats.Probes["block_exactly_on_boundary"]++
			}
		}
		if passed >= 2 {
			res.Stats.Probes["block_passed_2plus_boundaries"]++
		}
	}

	// ---- model first: gives the sequence numbers to sign with
	bfTx := faultOf(blk, FBankFail)
	mPre, mFx, mTxs := e.model.StepBlock(blk, nil, -1)

	// ---- sign
	var txBytes [][]byte
	var obs []txObs
	ti := 0
	for i := range blk.Txs {
		tx := &blk.Txs[i]
		msg := e.buildMsg(&tx.Msg)
		if tx.RawMsgJSON != "" {
			var any codectypes.Any
			if err := n.App.AppCodec().UnmarshalJSON([]byte(tx.RawMsgJSON), &any); err != nil {
				res.HarnessErr = fmt.Sprintf("raw msg json block %d tx %d: %v", bi, i, err)
				return bo, false
			}
			var m2 sdk.Msg
			if err := n.App.AppCodec().InterfaceRegistry().UnpackAny(&any, &m2); err != nil {
				res.HarnessErr = fmt.Sprintf("raw msg unpack block %d tx %d: %v", bi, i, err)
				return bo, false
			}
			msg = m2
		}
		b, err := n.SignTx(&e.actors[tx.Actor], mTxs[ti].Seq, msg)
		if err != nil {
			res.HarnessErr = fmt.Sprintf("sign block %d tx %d: %v", bi, i, err)
			return bo, false
		}
		txBytes = append(txBytes, b)
		obs = append(obs, txObs{Idx: i, Bytes: b, Hash: txHashHex(b), Model: mTxs[ti].Res})
		ti++
		if tx.Dup {
			txBytes = append(txBytes, b)
			obs = append(obs, txObs{Idx: i, Copy: 1, Bytes: b, Hash: txHashHex(b), Model: mTxs[ti].Res})
			ti++
		}
	}

	// ---- implementation
	oe := ""
	if faultOf(blk, FOEAbort) != nil {
		oe = FOEAbort
	} else if faultOf(blk, FOEHit) != nil {
		oe = FOEHit
	}
	n.Rec.inj.BankPhase, n.Rec.inj.bankCount, n.Rec.inj.BankFired = "", 0, false
	n.Rec.inj.HookMethod, n.Rec.inj.hookCount, n.Rec.inj.HookFired = "", 0, false
	if bfTx != nil && bfTx.Tx < len(blk.Txs) {
		for _, o := range obs {
			if o.Idx == bfTx.Tx && o.Copy == 0 {
				n.Rec.inj.BankPhase, n.Rec.inj.BankTxHash, n.Rec.inj.BankK = "tx", o.Hash, bfTx.K
			}
		}
	}
	if hf := faultOf(blk, FHookFail); hf != nil {
		n.Rec.inj.HookMethod, n.Rec.inj.HookListener, n.Rec.inj.HookNth = hf.Method, hf.Listener, hf.K
	}
	var dbBefore = (*memSnapshot)(nil)
	if faultOf(blk, FLostCommit) != nil {
		dbBefore = &memSnapshot{db: cloneDB(n.DB), height: n.Height, lastT: n.LastT}
	}
	if n.Trace != nil {
		n.Trace.Take()
	}
	exec := func(node *Node, oeMode string) (BlockResult, []error) {
		node.ResetRec()
		var perr []error
		for i := range blk.Pre {
			perr = append(perr, e.applyOpImpl(node, i, &blk.Pre[i]))
		}
		return node.Finalize(blk.TimeNs, txBytes, oeMode), perr
	}
	// the enumeration forks one scratch replica per injected call (~80 ms each): it is applied to every
	// third schedule so that the fault-free half of C07 keeps its breadth
	// (not in the sprawl profile: forking a replica that holds more than a hundred auctions once per bank call
	// of a begin block costs more than the whole history)
	if e.opt.BankFailEnum && (e.opt.EnumAll || (uint64(e.s.Seed)%3 == 0 && e.s.Cfg.Profile != "sprawl")) && res.Stats.Probes["enum_blocks"] < maxInt(e.opt.MaxEnumBlocks, 1) {
		e.enumBankFail(bi, blk, txBytes, prev)
	}
	if faultOf(blk, FDiscarded) != nil {
		// operations that are executed and then rolled back must leave no trace: a governance parameter
		// change and an allow-list change are run on a branch of the state that is thrown away (what
		// happens to a proposal whose later message fails, or to another module's transaction that fails
		// after calling the keeper), and the block's own transactions plus an unsigned authority message
		// are run through Simulate (gas estimation executes the message handlers on a discarded branch)
		e.discardedNoise(n, blk, txBytes)
		res.Stats.Faults[FDiscarded]++
	}
	if faultOf(blk, FCheckTx) != nil {
		// mempool traffic: CheckTx of the block's own transactions (and of garbage) runs on the check
		// state and must not influence what FinalizeBlock does
		for _, tb := range txBytes {
			_, _ = n.App.CheckTx(&abci.RequestCheckTx{Tx: tb, Type: abci.CheckTxType_New})
		}
		_, _ = n.App.CheckTx(&abci.RequestCheckTx{Tx: []byte("not a transaction"), Type: abci.CheckTxType_New})
		res.Stats.Faults[FCheckTx]++
	}
	br, preErrs := exec(n, oe)
	if oe != "" {
		res.Stats.Faults[oe]++
	}
	if faultOf(blk, FQuery) != nil && br.Err == nil && br.Panic == "" {
		// a query between FinalizeBlock and Commit must still see the pre-block state
		res.Stats.Faults[FQuery]++
		e.queryNoise(bo, prev)
	}
	hookInjectedBegin := false
	for _, h := range br.Hooks {
		if h.Injected && h.Phase == "begin" {
			hookInjectedBegin = true
		}
	}
	if br.Panic != "" || br.Err != nil {
		msg := br.Panic
		kind := "panic"
		if br.Err != nil {
			msg = br.Err.Error()
			kind = "error"
		}
		e.logf("b%d HALT %s %s", bi, kind, msg)
		res.Stats.Halted = true
		if hookInjectedBegin {
			// a listener failed during settlement: reporting the error is the required behaviour (C17)
			res.Stats.Faults[FHookFail]++
			e.checkHooksBlock(bo, br, mFx, true)
			return bo, false
		}
		if br.PanicAt != "" {
			msg += " [" + br.PanicAt + "]"
		}
		res.addV("C07", "block.fail", classifyHalt(msg), fmt.Sprintf("FinalizeBlock %s at block %d (t=%d): %s", kind, bi, blk.TimeNs, msg), bi, -1)
		// A failed block is also a block in which nothing that was due happened: an auction that had
		// to open or settle in the first block at or after its instant (C08), an instalment that had
		// to be paid in the first block at or after its release time (C09). Read from the
		// implementation's own records before the block, not from the model.
		if prev != nil {
			for i := range prev.Auctions {
				a := &prev.Auctions[i]
				switch a.Status {
				case StStandby:
					if a.StartNs <= blk.TimeNs {
						res.addV("C08", "lifecycle.blocked", "open", fmt.Sprintf("auction %d had to open in block %d (start %d <= block time %d) but the block failed: %s", a.ID, bi, a.StartNs, blk.TimeNs, abbreviate(msg)), bi, -1)
					}
				case StStarted:
					if len(a.EndTimes) > 0 && a.EndTimes[len(a.EndTimes)-1] <= blk.TimeNs {
						res.addV("C08", "lifecycle.blocked", "settle", fmt.Sprintf("auction %d had to settle or extend in block %d (end %d <= block time %d) but the block failed: %s", a.ID, bi, a.EndTimes[len(a.EndTimes)-1], blk.TimeNs, abbreviate(msg)), bi, -1)
					}
				case StVesting:
					for _, q := range a.Queue {
						if !q.Released && q.ReleaseNs <= blk.TimeNs {
							res.addV("C09", "release.blocked", "release", fmt.Sprintf("the instalment of auction %d due at %d had to be paid in block %d (time %d) but the block failed: %s", a.ID, q.ReleaseNs, bi, blk.TimeNs, abbreviate(msg)), bi, -1)
							break
						}
					}
				}
			}
		}
		return bo, false
	}
	if hookInjectedBegin {
		res.Stats.Faults[FHookFail]++
		res.addV("C17", "hook.veto.settlement", "begin", "a listener returned an error during settlement but FinalizeBlock reported success", bi, -1)
		return bo, false
	}
	first := br
	// crash before commit: only the disk survives; the block is executed again
	if faultOf(blk, FCrashPre) != nil {
		if err := n.Restart(); err != nil {
			res.HarnessErr = "restart: " + err.Error()
			return bo, false
		}
		n.Rec.inj.bankCount, n.Rec.inj.hookCount = 0, 0
		br, preErrs = exec(n, "")
		res.Stats.Faults[FCrashPre]++
		if br.Panic != "" || br.Err != nil {
			res.addV("C07", "block.fail.reexec", "crash_pre", fmt.Sprintf("re-execution after crash failed: %v %s", br.Err, br.Panic), bi, -1)
			return bo, false
		}
		e.compareExecutions(bi, "crash_pre", &first, &br)
		if len(blk.Txs) == 0 || e.settles(mFx) {
			res.Stats.Probes["crash_on_settlement_block"] += boolInt(e.settles(mFx))
		}
	}
	if err := n.Commit(blk.TimeNs); err != nil {
		res.HarnessErr = "commit: " + err.Error()
		return bo, false
	}
	bo.AppHash = hex.EncodeToString(n.App.LastCommitID().Hash)
	if dbBefore != nil {
		// the commit is lost: disk as before the block; node restarts and replays the block
		n.DB, n.Height, n.LastT = dbBefore.db, dbBefore.height, dbBefore.lastT
		if err := n.Restart(); err != nil {
			res.HarnessErr = "restart: " + err.Error()
			return bo, false
		}
		n.Rec.inj.bankCount, n.Rec.inj.hookCount = 0, 0
		br2, _ := exec(n, "")
		res.Stats.Faults[FLostCommit]++
		if br2.Panic != "" || br2.Err != nil {
			res.addV("C07", "block.fail.reexec", "lost_commit", fmt.Sprintf("replay after lost commit failed: %v %s", br2.Err, br2.Panic), bi, -1)
			return bo, false
		}
		e.compareExecutions(bi, "lost_commit", &br, &br2)
		if err := n.Commit(blk.TimeNs); err != nil {
			res.HarnessErr = "commit: " + err.Error()
			return bo, false
		}
		h2 := hex.EncodeToString(n.App.LastCommitID().Hash)
		if h2 != bo.AppHash {
			res.addV("C14", "replay.apphash", "lost_commit", fmt.Sprintf("app hash after replay %s != %s", h2, bo.AppHash), bi, -1)
		}
		br = br2
	}
	if faultOf(blk, FCrashPost) != nil {
		if err := n.Restart(); err != nil {
			res.HarnessErr = "restart: " + err.Error()
			return bo, false
		}
		res.Stats.Faults[FCrashPost]++
	}
	bo.Resp = br.Resp
	bo.AllCalls = br.Calls
	bo.AllHooks = br.Hooks
	if len(br.Resp.TxResults) != len(obs) {
		res.HarnessErr = "tx result count mismatch"
		return bo, false
	}
	byHash := map[string][]int{}
	for i := range obs {
		byHash[obs[i].Hash] = append(byHash[obs[i].Hash], i)
	}
	for i := range obs {
		r := br.Resp.TxResults[i]
		obs[i].Code, obs[i].Log, obs[i].Events = r.Code, r.Log, r.Events
	}
	// Identical bytes can occur several times in a block (a duplicate, or a stale-sequence copy that
	// later becomes valid). Only one inclusion can pass the ante chain (the sequence), so the calls made
	// under that hash belong to the accepted inclusion, else to the one that got furthest (message-level
	// rejection), else to the first.
	owner := func(hash string) int {
		idxs := byHash[hash]
		if len(idxs) == 0 {
			return -1
		}
		for _, i := range idxs {
			if obs[i].Code == 0 {
				return i
			}
		}
		for _, i := range idxs {
			if !obs[i].Model.AnteFail && !obs[i].Model.Basic {
				return i
			}
		}
		return idxs[0]
	}
	for _, c := range br.Calls {
		switch c.Phase {
		case "begin":
			bo.Begin = append(bo.Begin, c)
		case "tx":
			if i := owner(c.TxHash); i >= 0 {
				obs[i].Calls = append(obs[i].Calls, c)
				if c.Injected {
					obs[i].Injected = true
				}
			}
		}
	}
	for _, h := range br.Hooks {
		if h.Phase == "tx" {
			if i := owner(h.TxHash); i >= 0 {
				obs[i].Hooks = append(obs[i].Hooks, h)
				if h.Injected {
					obs[i].Injected = true
				}
			}
		}
	}
	bo.Txs = obs
	bo.BeginFx = mFx

	// a listener failure injected into a keeper-API operation: the operation must fail
	injectedPre := -1
	for _, h := range br.Hooks {
		if h.Injected && h.Phase == "pre" {
			fmt.Sscanf(h.TxHash, "pre:%d", &injectedPre)
		}
	}
	if injectedPre >= 0 && injectedPre < len(blk.Pre) {
		res.Stats.Faults[FHookFail]++
		m := bo.MPrev.Clone()
		m.BlockIdx = bi
		pre2, fx2, txr2 := m.StepBlockF(blk, nil, -1, injectedPre)
		e.model = m
		mPre, mFx = pre2, fx2
		for i := range obs {
			obs[i].Model = txr2[i].Res
		}
		bo.BeginFx = mFx
		if preErrs[injectedPre] == nil {
			res.addV("C17", "hook.veto.keeper_op", blk.Pre[injectedPre].Kind, fmt.Sprintf("a listener failed during keeper operation %d (%s) but the operation succeeded", injectedPre, blk.Pre[injectedPre].Kind), bi, -1)
		}
	}

	// L3 (numeric range): a message whose amounts are so large that an 18-decimal intermediate exceeds the
	// 315 bits of the decimal type panics inside the handler; BaseApp recovers it and rejects the tx.
	// Acceptance of such a message is a don't-care; the model adopts the rejection. (A panic in block
	// processing is never excused: that is C07.)
	overflowed := map[int]bool{}
	for i := range obs {
		if obs[i].Code != 0 && obs[i].Model.OK && obs[i].Copy == 0 && strings.Contains(obs[i].Log, "recovered: Int overflow") && hugeAmounts(&blk.Txs[obs[i].Idx].Msg) {
			overflowed[obs[i].Idx] = true
		}
	}
	if len(overflowed) > 0 {
		m := bo.MPrev.Clone()
		m.BlockIdx = bi
		pre2, fx2, txr2 := m.StepBlockFS(blk, nil, overflowed, -1)
		e.model = m
		mPre, mFx = pre2, fx2
		for i := range obs {
			obs[i].Model = txr2[i].Res
		}
		bo.BeginFx = mFx
		res.Stats.Relax["L3_numeric_range"] += len(overflowed)
	}

	// a fault that fired inside a tx: the model must skip that tx's effects
	forcedDiverge := false
	injectedTx := -1
	for i := range obs {
		if obs[i].Injected {
			injectedTx = i
		}
	}
	if injectedTx >= 0 {
		if n.Rec.inj.BankFired {
			res.Stats.Faults[FBankFail]++
		}
		if n.Rec.inj.HookFired {
			res.Stats.Faults[FHookFail]++
		}
		// re-run the model for this block with the tx forced to fail
		forced := obs[injectedTx].Idx
		m := bo.MPrev.Clone()
		m.BlockIdx = bi
		fset := map[int]bool{forced: true}
		for k := range overflowed {
			fset[k] = true
		}
		pre2, fx2, txr2 := m.StepBlockFS(blk, nil, fset, -1)
		e.model = m
		mPre, mFx = pre2, fx2
		for i := range obs {
			obs[i].Model = txr2[i].Res
		}
		bo.BeginFx = mFx
		if obs[injectedTx].Code == 0 {
			prop, rule := "C18", "fault.tx.atomic"
			if n.Rec.inj.HookFired {
				prop, rule = "C17", "hook.veto.message"
			}
			res.addV(prop, rule, blk.Txs[forced].Msg.Kind, fmt.Sprintf("a call inside tx %d failed but the tx was accepted", forced), bi, forced)
			if prop == "C17" {
				res.addV("C18", "fault.tx.atomic", blk.Txs[forced].Msg.Kind, "listener failure did not reject the tx", bi, forced)
			}
			res.Stats.Diverged = true
			forcedDiverge = true
		}
	}
	_ = mPre

	// ---- read-out
	cur, err := SnapFromImpl(n, e.tracked)
	if err != nil {
		res.addV("C07", "state.unreadable", "readout", "committed module state cannot be read: "+err.Error(), bi, -1)
		return bo, false
	}
	bo.Cur = cur

	// L2 witness: if the model met an ambiguous rate comparison and the implementation decided otherwise, re-run
	if !e.modelOff && e.needWitness(bo.MPrev, cur) && injectedTx < 0 {
		w := &BlockWitness{Extended: map[uint64]bool{}}
		for _, a := range cur.Auctions {
			if int(a.ID) < len(prev.Auctions) {
				w.Extended[a.ID] = len(a.EndTimes) > len(prev.Auctions[a.ID].EndTimes)
			}
		}
		m2 := bo.MPrev.Clone()
		m2.BlockIdx = bi
		_, fx2, tx2 := m2.StepBlock(blk, w, -1)
		if m2.Relax["L2"] > bo.MPrev.Relax["L2"] {
			e.model = m2
			mFx = fx2
			bo.BeginFx = fx2
			for i := range obs {
				obs[i].Model = tx2[i].Res
			}
			res.Stats.Relax["L2"]++
		}
	}

	// ---- trace lines (determinism self-test and replay identity)
	for i, o := range obs {
		e.logf("b%d tx%d idx=%d copy=%d code=%d calls=%d", bi, i, o.Idx, o.Copy, o.Code, len(o.Calls))
		if o.Code == 0 {
			res.Stats.TxOK++
		} else if o.Model.AnteFail {
			res.Stats.TxAnte++
		} else {
			res.Stats.TxRejected++
		}
		res.Stats.Txs++
	}
	for _, c := range bo.Begin {
		e.logf("b%d begin %s %s>%s %s err=%v", bi, c.Kind, short(c.From), short(c.To), c.Coins, c.Err != "")
	}
	e.logf("b%d t=%d apphash=%s", bi, blk.TimeNs, bo.AppHash)

	// ---- oracles
	for i := range blk.Pre {
		po := preObs{Op: &blk.Pre[i], ImplErr: preErrs[i], Model: mPre[i]}
		bo.PreRes = append(bo.PreRes, po)
		res.Stats.PreOps++
		if preErrs[i] == nil {
			res.Stats.PreOK++
		}
	}
	diverged := false
	if !e.modelOff {
		diverged = e.refine(bo)
	}
	e.directOracles(bo)
	if !forcedDiverge && !e.modelOff {
		e.checkHooksBlock(bo, br, mFx, false)
	}
	if e.opt.Trace && !e.modelOff {
		e.checkWriteSets(bo)
	} else if e.node.Trace != nil {
		e.node.Trace.Take()
	}
	e.shadowBlock(bo, txBytes)
	if faultOf(blk, FJoinExport) != nil && !diverged && !e.modelOff {
		e.joinExport(bo)
	}
	e.joinedBlock(bo, txBytes)
	if e.opt.Queries && (e.opt.QueryEvery <= 1 || bi%e.opt.QueryEvery == 0 || e.settles(mFx)) {
		e.checkQueries(bo)
	}
	e.noteState(bo)
	if e.opt.Project || e.opt.collectFrames {
		e.recordFrame(bo)
	}
	if e.opt.OnBlock != nil {
		e.opt.OnBlock(e, bo)
	}
	if !diverged && !forcedDiverge && !e.modelOff {
		e.linRecordBlock(bo)
	}
	if diverged || forcedDiverge {
		// Model and implementation disagree: the model's later expectations would be noise, but the
		// implementation's own history goes on. The run continues model-free: blocks are still
		// executed and only the oracles that read the implementation's records are evaluated.
		res.Stats.Diverged = true
		e.modelOff = true
	}
	return bo, true
}

type memSnapshot struct {
	db     *dbmMem
	height int64
	lastT  int64
}

func boolInt(b bool) int {
	if b {
		return 1
	}
	return 0
}

func (e *execState) settles(fx BlockEffects) bool {
	for _, ev := range fx.Events {
		if strings.HasPrefix(ev, "settle:") || strings.HasPrefix(ev, "extend:") || strings.HasPrefix(ev, "release:") {
			return true
		}
	}
	return false
}

func classifyHalt(msg string) string {
	switch {
	case strings.Contains(msg, "invalid auction status"):
		return "terminal-auction-in-loop"
	case strings.Contains(msg, "overflow"):
		// keep the panicking function of the module in the class: "overflow [types.Match @ file:line]" -> "overflow:types.Match"
		if i := strings.Index(msg, "["); i >= 0 {
			site := msg[i+1:]
			if j := strings.Index(site, " @"); j > 0 {
				return "overflow:" + site[:j]
			}
		}
		return "overflow"
	case strings.Contains(msg, "insufficient funds"):
		return "insufficient-funds"
	}
	// keep the class key structural: numbers (amounts, ids) are replaced
	var sb strings.Builder
	prevDigit := false
	for _, r := range msg {
		if r >= '0' && r <= '9' {
			if !prevDigit {
				sb.WriteByte('N')
			}
			prevDigit = true
			continue
		}
		prevDigit = false
		sb.WriteRune(r)
	}
	msg = sb.String()
	if len(msg) > 60 {
		msg = msg[:60]
	}
	return msg
}

// needWitness: did the model make an ambiguous (within 1e-18) rate comparison in this block?
func (e *execState) needWitness(mprev *Model, cur *Snap) bool {
	for _, a := range mprev.Auctions {
		if a.Type != TypeBatch || a.Status != StStarted || a.LastMatched == 0 {
			continue
		}
		if int(a.ID) >= len(cur.Auctions) {
			continue
		}
		ma := e.model.Auctions[a.ID]
		extendedModel := len(ma.EndTimes) > len(a.EndTimes)
		extendedImpl := len(cur.Auctions[a.ID].EndTimes) > len(a.EndTimes)
		if extendedModel != extendedImpl && len(ma.MatchedLenHist) > len(a.MatchedLenHist) {
			curLen := ma.MatchedLenHist[len(ma.MatchedLenHist)-1]
			lhs := new(big.Int).Mul(big.NewInt(a.LastMatched-curLen), decUnit)
			rhs := new(big.Int).Mul(a.ExtRate, big.NewInt(a.LastMatched))
			d := new(big.Int).Sub(lhs, rhs)
			if d.Sign() < 0 && new(big.Int).Lsh(new(big.Int).Neg(d), 1).Cmp(big.NewInt(a.LastMatched)) < 0 {
				return true
			}
		}
	}
	return false
}

// compareExecutions: two executions of the same block on the same state must
// be byte-identical (C14).
func (e *execState) compareExecutions(bi int, how string, a, b *BlockResult) {
	if a.Resp == nil || b.Resp == nil {
		return
	}
	ab := consensusBytes(a.Resp)
	bb := consensusBytes(b.Resp)
	if string(ab) != string(bb) {
		e.res.addV("C14", "reexec.response", how, fmt.Sprintf("block %d re-executed after %s produced a different FinalizeBlock response (%s)", bi, how, firstEventDiff(a.Resp, b.Resp)), bi, -1)
	}
	if ok, d := sameOrderedCalls(a.Calls, b.Calls); !ok {
		e.res.addV("C14", "reexec.transfers", how, fmt.Sprintf("block %d re-executed after %s made bank transfers in a different order: %s", bi, how, d), bi, -1)
	}
}

func sameOrderedCalls(a, b []Call) (bool, string) {
	fa, fb := []string{}, []string{}
	for _, c := range a {
		fa = append(fa, c.Phase+":"+c.Kind+":"+c.From+">"+c.To+":"+c.Coins)
	}
	for _, c := range b {
		fb = append(fb, c.Phase+":"+c.Kind+":"+c.From+">"+c.To+":"+c.Coins)
	}
	if len(fa) != len(fb) {
		return false, fmt.Sprintf("%d vs %d calls", len(fa), len(fb))
	}
	for i := range fa {
		if fa[i] != fb[i] {
			return false, fmt.Sprintf("call %d: %s vs %s", i, fa[i], fb[i])
		}
	}
	return true, ""
}

func firstEventDiff(a, b *abci.ResponseFinalizeBlock) string {
	if len(a.Events) != len(b.Events) {
		return fmt.Sprintf("%d vs %d block events", len(a.Events), len(b.Events))
	}
	for i := range a.Events {
		if a.Events[i].String() != b.Events[i].String() {
			return fmt.Sprintf("block event %d: %s vs %s", i, abbreviate(a.Events[i].String()), abbreviate(b.Events[i].String()))
		}
	}
	for i := range a.TxResults {
		if i < len(b.TxResults) && a.TxResults[i].String() != b.TxResults[i].String() {
			x, y := a.TxResults[i], b.TxResults[i]
			switch {
			case x.Code != y.Code:
				return fmt.Sprintf("tx result %d: code %d vs %d", i, x.Code, y.Code)
			case x.GasUsed != y.GasUsed || x.GasWanted != y.GasWanted:
				return fmt.Sprintf("tx result %d: gas used %d vs %d", i, x.GasUsed, y.GasUsed)
			case len(x.Events) != len(y.Events):
				return fmt.Sprintf("tx result %d: %d vs %d events", i, len(x.Events), len(y.Events))
			}
			for k := range x.Events {
				if x.Events[k].String() != y.Events[k].String() {
					return fmt.Sprintf("tx result %d event %d: %s vs %s", i, k, abbreviate(x.Events[k].String()), abbreviate(y.Events[k].String()))
				}
			}
			return fmt.Sprintf("tx result %d differs (data/info/codespace)", i)
		}
	}
	return "other field"
}

func abbreviate(s string) string {
	if len(s) > 200 {
		return s[:200] + "…"
	}
	return s
}

// consensusBytes: the FinalizeBlock response without the fields CometBFT itself declares
// non-deterministic (tx Log and Info: a recovered panic's log carries a stack trace with goroutine
// ids and addresses). Everything else - codes, data, gas, all events in order, validator and
// parameter updates, app hash - is compared byte for byte.
func consensusBytes(r *abci.ResponseFinalizeBlock) []byte {
	c := *r
	c.TxResults = make([]*abci.ExecTxResult, len(r.TxResults))
	for i, t := range r.TxResults {
		x := *t
		x.Log, x.Info = "", ""
		c.TxResults[i] = &x
	}
	b, _ := c.Marshal()
	return b
}

func (e *execState) discardedNoise(n *Node, blk *Block, txBytes [][]byte) {
	func() {
		defer func() { _ = recover() }()
		var base sdk.Context
		if n.Fresh {
			base = n.App.BaseApp.NewContextLegacy(false, cmtproto.Header{Height: n.Height + 1, Time: tUTC(n.LastT), ChainID: ChainID})
		} else {
			base = n.App.BaseApp.NewUncachedContext(false, cmtproto.Header{Height: n.Height + 1, Time: tUTC(n.LastT), ChainID: ChainID})
		}
		cctx, _ := base.CacheContext() // never written back
		k := n.App.FundraisingKeeper
		noise := types.Params{AuctionCreationFee: sdk.NewCoins(sdk.NewInt64Coin("stake", 77)), PlaceBidFee: sdk.NewCoins(sdk.NewInt64Coin("stake", 13), sdk.NewInt64Coin("upay", 5)), ExtendedPeriod: 9}
		_, _ = keeper.NewMsgServerImpl(k).UpdateParams(cctx, &types.MsgUpdateParams{Authority: n.govAuthority(), Params: noise})
		for id := uint64(0); id < 3; id++ {
			_ = k.AddAllowedBidders(cctx, id, []types.AllowedBidder{{AuctionId: id, Bidder: e.actors[0].Bech, MaxBidAmount: sdkmath.NewInt(1)}})
			_ = k.UpdateAllowedBidder(cctx, id, e.actors[len(e.actors)-1].Addr, sdkmath.NewInt(1))
		}
	}()
	for _, tb := range txBytes {
		func() {
			defer func() { _ = recover() }()
			_, _, _ = n.App.Simulate(tb)
		}()
	}
	// an unsigned authority message: simulation does not verify signatures
	func() {
		defer func() { _ = recover() }()
		txb := n.TxCfg.NewTxBuilder()
		noise := types.Params{AuctionCreationFee: sdk.NewCoins(sdk.NewInt64Coin("stake", 55)), PlaceBidFee: sdk.NewCoins(sdk.NewInt64Coin("stake", 21)), ExtendedPeriod: 5}
		if err := txb.SetMsgs(&types.MsgUpdateParams{Authority: n.govAuthority(), Params: noise}); err != nil {
			return
		}
		txb.SetGasLimit(1_000_000_000)
		if bz, err := n.TxCfg.TxEncoder()(txb.GetTx()); err == nil {
			_, _, _ = n.App.Simulate(bz)
		}
	}()
}

// hugeAmounts: does the message carry an amount of at least 1e57? (with prices between 1e-18 and 1e18
// an 18-decimal product or quotient of such an amount can exceed 2^315.)
func hugeAmounts(m *Msg) bool {
	lim := new(big.Int).Exp(big.NewInt(10), big.NewInt(57), nil)
	chk := func(c *Coin) bool {
		if c == nil {
			return false
		}
		v, ok := new(big.Int).SetString(c.Amount, 10)
		return ok && v.Cmp(lim) >= 0
	}
	if chk(m.Coin) || chk(m.SellingCoin) {
		return true
	}
	for i := range m.Coins {
		if chk(&m.Coins[i]) {
			return true
		}
	}
	return false
}
