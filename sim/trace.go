package sim

// C18 / C19: per-transaction KV write sets through the store tracer that
// app.New installs (traceStore writer -> CommitMultiStore tracer).
//
// Attribution rule (probed): message-level writes of tx X reach a traced layer
// tagged with X's hash when its message cache is written back; a failed
// message writes nothing. The tag is leaky towards the *next* tx's ante cache,
// but with zero fees the ante chain writes only the auth store, so writes
// tagged X in the stores fundraising / bank / distribution are exactly X's
// message writes.

import (
	"bytes"
	"encoding/base64"
	"encoding/binary"
	"encoding/json"
	"fmt"
	"strings"

	sdk "github.com/cosmos/cosmos-sdk/types"
)

type traceLine struct {
	Operation string `json:"operation"`
	Key       string `json:"key"`
	Metadata  struct {
		Store  string `json:"store_name"`
		TxHash string `json:"txHash"`
	} `json:"metadata"`
}

type kvWrite struct {
	Store string
	Key   []byte
	Op    string
}

func parseTrace(b []byte) map[string][]kvWrite {
	out := map[string][]kvWrite{}
	for _, ln := range bytes.Split(b, []byte{'\n'}) {
		if len(ln) == 0 || !bytes.Contains(ln, []byte(`"txHash"`)) {
			continue
		}
		if !bytes.HasPrefix(ln, []byte(`{"operation":"write"`)) && !bytes.HasPrefix(ln, []byte(`{"operation":"delete"`)) {
			continue
		}
		var tl traceLine
		if err := json.Unmarshal(ln, &tl); err != nil {
			continue
		}
		k, err := base64.StdEncoding.DecodeString(tl.Key)
		if err != nil {
			continue
		}
		h := strings.ToLower(tl.Metadata.TxHash)
		out[h] = append(out[h], kvWrite{tl.Metadata.Store, k, tl.Operation})
	}
	return out
}

// fundraisingKeyOwner: which auction does a key of the module's store belong to?
func fundraisingKeyOwner(k []byte) (kind string, auction uint64, ok bool) {
	for _, p := range []string{"auction/value/", "bid/value/", "bid/count/", "AllowedBidder/value/", "VestingQueue/value/", "MatchedBidsLen/value/"} {
		if bytes.HasPrefix(k, []byte(p)) {
			rest := k[len(p):]
			if len(rest) < 8 {
				return p, 0, false
			}
			return p, binary.BigEndian.Uint64(rest[:8]), true
		}
	}
	if bytes.HasPrefix(k, []byte("auction/count/")) {
		return "auction/count/", 0, false
	}
	if bytes.HasPrefix(k, []byte("p_fundraising")) {
		return "params", 0, false
	}
	return "unknown", 0, false
}

func bankBalanceAddr(k []byte) (string, bool) {
	if len(k) < 2 || k[0] != 0x02 {
		return "", false
	}
	n := int(k[1])
	if len(k) < 2+n {
		return "", false
	}
	return sdk.AccAddress(k[2 : 2+n]).String(), true
}

func (e *execState) checkWriteSets(bo *blockObs) {
	n := e.node
	if n.Trace == nil {
		return
	}
	writes := parseTrace(n.Trace.Take())
	res := e.res
	hashCount := map[string]int{}
	for _, o := range bo.Txs {
		hashCount[o.Hash]++
	}
	distr := e.distrAddr()
	for i := range bo.Txs {
		o := &bo.Txs[i]
		if hashCount[o.Hash] > 1 {
			continue // the same bytes twice in one block share a tag
		}
		tx := &bo.Blk.Txs[o.Idx]
		ws := writes[o.Hash]
		res.Stats.TraceChecks++
		if o.Code != 0 {
			for _, w := range ws {
				if w.Store == "fundraising" || w.Store == "bank" || w.Store == "distribution" {
					kind, auc, _ := fundraisingKeyOwner(w.Key)
					res.addV("C18", "rejected.wrote_state", tx.Msg.Kind, fmt.Sprintf("rejected tx %d (%s, code %d) wrote to store %q (key kind %s, auction %d)", o.Idx, tx.Msg.Kind, o.Code, w.Store, kind, auc), bo.Idx, o.Idx)
					break
				}
			}
			res.Stats.Probes["rejected_tx_write_sets_checked"]++
			continue
		}
		if tx.Msg.Kind == KSend {
			continue
		}
		// frame: the operation's own auction only
		var own uint64
		switch tx.Msg.Kind {
		case KCreateFixed, KCreateBatch:
			own = e.createdID(bo, tx)
		default:
			own = tx.Msg.AuctionID
		}
		signer := e.addrOf(tx.Actor)
		allowedAddr := map[string]bool{signer: true, EscrowAddr("selling", own): true, EscrowAddr("paying", own): true, EscrowAddr("vesting", own): true, distr: true}
		for _, w := range ws {
			switch w.Store {
			case "fundraising":
				kind, auc, has := fundraisingKeyOwner(w.Key)
				switch {
				case kind == "auction/count/":
					if tx.Msg.Kind != KCreateFixed && tx.Msg.Kind != KCreateBatch {
						res.addV("C19", "frame.counter", tx.Msg.Kind, fmt.Sprintf("tx %d (%s) wrote the global auction counter", o.Idx, tx.Msg.Kind), bo.Idx, o.Idx)
					}
				case kind == "unknown":
					// a key layout this harness does not know (a new index, say): whether such a write
					// concerns another auction cannot be told from the key; interference would still
					// show in the observable state, which is compared after every block
					res.Stats.Probes["write_to_unknown_module_key"]++
				case kind == "params":
					res.addV("C19", "frame.foreign_key", tx.Msg.Kind, fmt.Sprintf("tx %d (%s on auction %d) wrote key %q of the module store", o.Idx, tx.Msg.Kind, own, string(w.Key)), bo.Idx, o.Idx)
				case has && auc != own:
					res.addV("C19", "frame.other_auction", tx.Msg.Kind+":"+kind, fmt.Sprintf("tx %d (%s on auction %d) wrote %s of auction %d", o.Idx, tx.Msg.Kind, own, kind, auc), bo.Idx, o.Idx)
				case kind == "VestingQueue/value/" || kind == "MatchedBidsLen/value/" || kind == "AllowedBidder/value/":
					res.addV("C19", "frame.unexpected_record", tx.Msg.Kind+":"+kind, fmt.Sprintf("tx %d (%s) wrote %s", o.Idx, tx.Msg.Kind, kind), bo.Idx, o.Idx)
				}
			case "bank":
				if addr, ok := bankBalanceAddr(w.Key); ok {
					if !allowedAddr[addr] {
						res.addV("C19", "frame.balance", tx.Msg.Kind, fmt.Sprintf("tx %d (%s on auction %d by %s) changed the balance of %s", o.Idx, tx.Msg.Kind, own, short(signer), short(addr)), bo.Idx, o.Idx)
					}
				} else if len(w.Key) > 0 && w.Key[0] == 0x00 {
					res.addV("C02", "supply_changed", tx.Msg.Kind, fmt.Sprintf("tx %d (%s) wrote the bank supply", o.Idx, tx.Msg.Kind), bo.Idx, o.Idx)
				}
			}
		}
		res.Stats.Probes["accepted_tx_write_sets_checked"]++
	}
}

func (e *execState) distrAddr() string {
	return e.node.App.AccountKeeper.GetModuleAddress("distribution").String()
}
