package sim

// C20: the shipped node binary as a client of the simulated chain.
//
//  boot part (deterministic process start, no clock, no socket): the default
//  binary is built from /repo's working tree without tags or link flags; the
//  root command and every module sub-command must answer --help.
//
//  simulation part (CLI in the loop): transactions are produced by the real
//  binary with --generate-only from seeded arguments, decoded, compared with
//  what was typed, signed by the simulator and executed on the simulated chain
//  in lock-step with the reference model; every query command is then run by
//  the real binary against the simulated node through a request/response RPC
//  shim and its output is compared with the node's state.

import (
	"bytes"
	"context"
	"encoding/json"
	"fmt"
	"os"
	"os/exec"
	"path/filepath"
	"regexp"
	"sort"
	"strings"
	"time"
)

type cliEnv struct {
	bin     string
	home    string
	scratch string
	ldflags string
	runs    int
}

type cliResult struct {
	Args  []string
	Out   string
	Err   string
	Exit  int
	Panic bool
}

func (c *cliEnv) run(timeout time.Duration, args ...string) cliResult {
	c.runs++
	full := append([]string{"--home", c.home}, args...)
	ctx, cancel := context.WithTimeout(context.Background(), timeout)
	defer cancel()
	cmd := exec.CommandContext(ctx, c.bin, full...)
	var so, se bytes.Buffer
	cmd.Stdout, cmd.Stderr = &so, &se
	cmd.Env = append(os.Environ(), "HOME="+c.scratch)
	err := cmd.Run()
	r := cliResult{Args: args, Out: so.String(), Err: se.String()}
	if err != nil {
		r.Exit = 1
		if ee, ok := err.(*exec.ExitError); ok {
			r.Exit = ee.ExitCode()
		}
	}
	r.Panic = strings.Contains(r.Err, "panic:") || strings.Contains(r.Out, "panic:") || strings.Contains(r.Err, "goroutine 1 [running]")
	return r
}

// repoDir: the repository the default binary is built from (/repo; a scratch worktree when a seeded
// change is tested in isolation with seedtest.sh).
func repoDir() string {
	if d := os.Getenv("VERIF_REPO"); d != "" {
		return d
	}
	return "/repo"
}

func goEnv() []string {
	return append(os.Environ(), "GOFLAGS=-mod=mod", "GOPROXY=off", "GOSUMDB=off", "GOTOOLCHAIN=local")
}

// buildDefaultBinary builds cmd/fundraisingd from /repo's working tree exactly
// as `go build` does by default: no tags, no link flags (ldflags != "" builds
// the documented testing variant, used only as a positive control).
func buildDefaultBinary(repo, out, ldflags string) error {
	args := []string{"build", "-o", out}
	if ldflags != "" {
		args = append(args, "-ldflags", ldflags)
	}
	args = append(args, "./cmd/fundraisingd")
	cmd := exec.Command("go", args...)
	cmd.Dir = repo
	cmd.Env = goEnv()
	b, err := cmd.CombinedOutput()
	if err != nil {
		return fmt.Errorf("go build: %v\n%s", err, b)
	}
	return nil
}

var cmdLineRe = regexp.MustCompile(`^  ([a-z][a-z0-9-]*)\s+\S`)

func availableCommands(help string) []string {
	var out []string
	in := false
	for _, ln := range strings.Split(help, "\n") {
		if strings.HasPrefix(ln, "Available Commands:") {
			in = true
			continue
		}
		if in {
			if strings.TrimSpace(ln) == "" {
				break
			}
			if m := cmdLineRe.FindStringSubmatch(ln); m != nil {
				out = append(out, m[1])
			}
		}
	}
	return out
}

// declaredAliases: the names on the "Aliases:" line of a command's help output.
func declaredAliases(help string) []string {
	lines := strings.Split(help, "\n")
	for i, ln := range lines {
		if strings.HasPrefix(ln, "Aliases:") && i+1 < len(lines) {
			var out []string
			for _, a := range strings.Split(lines[i+1], ",") {
				if a = strings.TrimSpace(a); a != "" {
					out = append(out, a)
				}
			}
			return out
		}
	}
	return nil
}

func kebab(s string) string {
	var sb strings.Builder
	for i, r := range s {
		if r >= 'A' && r <= 'Z' {
			if i > 0 {
				sb.WriteByte('-')
			}
			sb.WriteRune(r + 32)
		} else {
			sb.WriteRune(r)
		}
	}
	return sb.String()
}

type cliViolation struct {
	Rule, Key, Detail string
	Cmd               []string
}

type CmdReplay struct {
	Seed     int64    `json:"seed"`
	Property string   `json:"property"`
	Rule     string   `json:"rule"`
	Key      string   `json:"key"`
	Detail   string   `json:"detail"`
	Build    string   `json:"build"`
	Cmd      []string `json:"cmd"`
	Expect   string   `json:"expect"`
}

var msgMethods = []string{"CreateFixedPriceAuction", "CreateBatchAuction", "CancelAuction", "PlaceBid", "ModifyBid"}
var queryMethods = []string{"Params", "ListAuction", "GetAuction", "ListAllowedBidder", "GetAllowedBidder", "ListBid", "GetBid", "ListVestingQueue"}

// bootProbe: the binary starts and every module command answers --help.
func bootProbe(c *cliEnv, pairs map[string]bool) (vs []cliViolation, txCmds, qCmds []string) {
	chk := func(args ...string) (cliResult, bool) {
		r := c.run(60*time.Second, args...)
		pairs["help|"+strings.Join(args, " ")] = true
		if r.Panic || r.Exit != 0 {
			why := "exit status " + fmt.Sprint(r.Exit)
			key := "exit"
			if r.Panic {
				key = "panic"
				why = "panic: " + firstLine(r.Err+r.Out, "panic:")
			}
			vs = append(vs, cliViolation{"boot", key, fmt.Sprintf("`fundraisingd %s` does not run: %s", strings.Join(args, " "), why), args})
			return r, false
		}
		return r, true
	}
	if _, ok := chk("--help"); !ok {
		return
	}
	if _, ok := chk("version"); !ok {
		return
	}
	tr, ok1 := chk("tx", "fundraising", "--help")
	qr, ok2 := chk("query", "fundraising", "--help")
	if !ok1 || !ok2 {
		return
	}
	txCmds = availableCommands(tr.Out)
	qCmds = availableCommands(qr.Out)
	// every alias a command declares must reach that command (cobra resolves a name to the first
	// sibling that claims it: an alias declared twice silently shadows the second command)
	aliasCheck := func(group, name, help string) {
		for _, al := range declaredAliases(help) {
			if al == name {
				continue
			}
			r, ok := chk(group, "fundraising", al, "--help")
			if ok && r.Out != help {
				vs = append(vs, cliViolation{"wiring.alias", name, fmt.Sprintf("`%s fundraising %s` is declared as an alias of `%s` but reaches another command: %s", group, al, name, firstLine(r.Out, "fundraisingd "+group+" fundraising")), []string{group, "fundraising", al, "--help"}})
			}
		}
	}
	for _, s := range txCmds {
		if r, ok := chk("tx", "fundraising", s, "--help"); ok {
			aliasCheck("tx", s, r.Out)
		}
	}
	for _, s := range qCmds {
		if r, ok := chk("query", "fundraising", s, "--help"); ok {
			aliasCheck("query", s, r.Out)
		}
	}
	has := func(list []string, name string) bool {
		for _, x := range list {
			if x == name {
				return true
			}
		}
		return false
	}
	for _, m := range msgMethods {
		if !has(txCmds, kebab(m)) {
			vs = append(vs, cliViolation{"wiring.unreachable", m, fmt.Sprintf("message %s is not reachable: no `tx fundraising %s` command (have %v)", m, kebab(m), txCmds), []string{"tx", "fundraising", "--help"}})
		}
	}
	for _, m := range queryMethods {
		if !has(qCmds, kebab(m)) {
			vs = append(vs, cliViolation{"wiring.unreachable", m, fmt.Sprintf("query %s is not reachable: no `query fundraising %s` command (have %v)", m, kebab(m), qCmds), []string{"query", "fundraising", "--help"}})
		}
	}
	return
}

func firstLine(s, marker string) string {
	for _, ln := range strings.Split(s, "\n") {
		if strings.Contains(ln, marker) {
			return strings.TrimSpace(ln)
		}
	}
	return ""
}

func writeCmdReplay(verifDir string, prop string, v cliViolation, build string, seed int64) string {
	rf := CmdReplay{Seed: seed, Property: prop, Rule: v.Rule, Key: v.Key, Detail: v.Detail, Build: build, Cmd: v.Cmd, Expect: "exit status 0, no panic"}
	b, _ := json.MarshalIndent(rf, "", " ")
	dir := filepath.Join(verifDir, "replays")
	_ = os.MkdirAll(dir, 0o755)
	p := filepath.Join(dir, fmt.Sprintf("%s_%s_%s.cmd.json", prop, sanitize(v.Rule), sanitize(v.Key)))
	_ = os.WriteFile(p, b, 0o644)
	return p
}

// ReplayCmd re-runs a command replay: rebuilds the default binary and runs the command.
func ReplayCmd(path string) (bool, string, error) {
	b, err := os.ReadFile(path)
	if err != nil {
		return false, "", err
	}
	var rf CmdReplay
	if err := json.Unmarshal(b, &rf); err != nil {
		return false, "", err
	}
	scratch, err := os.MkdirTemp("/var/tmp", "verif-scratch.")
	if err != nil {
		return false, "", err
	}
	defer os.RemoveAll(scratch)
	bin := filepath.Join(scratch, "fundraisingd")
	if err := buildDefaultBinary(repoDir(), bin, ""); err != nil {
		return false, "", err
	}
	c := &cliEnv{bin: bin, home: filepath.Join(scratch, "home"), scratch: scratch}
	if strings.HasPrefix(rf.Rule, "cli.") {
		// a violation found with the CLI in the loop: re-run the seeded histories and look for the same class
		vs, _, _, herr := cliInTheLoop(c, rf.Seed, 40*time.Second, map[string]bool{})
		if herr != "" {
			return false, "", fmt.Errorf("harness: %s", herr)
		}
		for _, v := range vs {
			if v.Rule == rf.Rule && v.Key == rf.Key {
				return true, v.Detail, nil
			}
		}
		return false, "class not reproduced within the replay budget", nil
	}
	r := c.run(60*time.Second, rf.Cmd...)
	out := fmt.Sprintf("exit=%d panic=%v\n%s%s", r.Exit, r.Panic, abbreviate(r.Out), abbreviate(r.Err))
	if rf.Rule == "default_build.switch_on" {
		return strings.Contains(r.Out, "Send a AddAllowedBidder tx"), out, nil
	}
	return r.Panic || r.Exit != 0, out, nil
}

func sortedStrs(m map[string]bool) []string {
	out := make([]string, 0, len(m))
	for k := range m {
		out = append(out, k)
	}
	sort.Strings(out)
	return out
}
