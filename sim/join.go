package sim

// C15: a new replica is started from the primary's exported genesis
// (F-join-export) and then fed the same blocks.

import (
	"encoding/json"
	"fmt"
	"strings"

	abci "github.com/cometbft/cometbft/abci/types"
	dbm "github.com/cosmos/cosmos-db"

	"github.com/tendermint/fundraising/x/fundraising/types"
)

func classifyGenesisErr(msg string) string {
	switch {
	case strings.Contains(msg, "duplicated index for allowedBidder"):
		return "dup-allowed-bidder-index"
	case strings.Contains(msg, "duplicated index for vestingQueue"):
		return "dup-vesting-queue-index"
	case strings.Contains(msg, "duplicated id for bid"):
		return "dup-bid-id"
	case strings.Contains(msg, "release time must be set after the end time"):
		return "release-vs-end-time"
	}
	if len(msg) > 50 {
		msg = msg[:50]
	}
	return msg
}

func (e *execState) joinExport(bo *blockObs) {
	n := e.node
	res := e.res
	bi := bo.Idx
	if len(e.joined) >= 3 {
		return
	}
	var exp struct {
		state  json.RawMessage
		height int64
	}
	func() {
		defer func() {
			if r := recover(); r != nil {
				res.addV("C15", "export.panic", "export", fmt.Sprintf("export panicked: %v", r), bi, -1)
			}
		}()
		ex, err := n.App.ExportAppStateAndValidators(false, nil, nil)
		if err != nil {
			res.addV("C15", "export.error", "export", "export failed: "+err.Error(), bi, -1)
			return
		}
		exp.state, exp.height = ex.AppState, ex.Height
	}()
	if exp.state == nil {
		return
	}
	res.Stats.Faults[FJoinExport]++
	var all map[string]json.RawMessage
	if err := json.Unmarshal(exp.state, &all); err != nil {
		res.HarnessErr = "export json: " + err.Error()
		return
	}
	// (1) the module's own validation accepts its export
	var gs types.GenesisState
	if err := n.App.AppCodec().UnmarshalJSON(all[types.ModuleName], &gs); err != nil {
		res.addV("C15", "export.unmarshal", "export", "exported genesis does not unmarshal: "+err.Error(), bi, -1)
		return
	}
	func() {
		defer func() {
			if r := recover(); r != nil {
				res.addV("C15", "export.validate", "panic", fmt.Sprintf("Validate panicked on the exported genesis: %v", r), bi, -1)
			}
		}()
		if err := gs.Validate(); err != nil {
			res.addV("C15", "export.validate", classifyGenesisErr(err.Error()), fmt.Sprintf("exported genesis (%d auctions, %d allowed bidders, %d bids, %d instalments) fails the module's validation: %v", len(gs.AuctionList), len(gs.AllowedBidderList), len(gs.BidList), len(gs.VestingQueueList), err), bi, -1)
		}
	}()
	e.probeExportMoment(bo)
	// (2) import into an empty store
	j := &Node{Name: fmt.Sprintf("joined@%d", bi), DB: dbm.NewMemDB(), Rec: &Recorder{inj: &Injector{}}, NListen: 0, JoinedAt: bi}
	if err := j.openApp(); err != nil {
		res.HarnessErr = "join open: " + err.Error()
		return
	}
	var initErr error
	func() {
		defer func() {
			if r := recover(); r != nil {
				initErr = fmt.Errorf("panic: %v", r)
			}
		}()
		_, initErr = j.App.InitChain(&abci.RequestInitChain{ChainId: ChainID, AppStateBytes: exp.state, ConsensusParams: consensusParams(), InitialHeight: exp.height, Time: tUTC(bo.Blk.TimeNs)})
	}()
	if initErr != nil {
		res.addV("C15", "import.failed", "init", "InitChain with the exported genesis failed: "+abbreviate(initErr.Error()), bi, -1)
		return
	}
	j.Height = exp.height - 1
	j.LastT = bo.Blk.TimeNs
	j.Fresh = true
	if j.Height != n.Height {
		res.HarnessErr = fmt.Sprintf("join height %d != %d", j.Height, n.Height)
		return
	}
	// (3) collection by collection
	js, err := SnapFromImpl(j, e.tracked)
	if err != nil {
		res.addV("C15", "import.unreadable", "readout", "imported state cannot be read: "+err.Error(), bi, -1)
		return
	}
	for _, d := range DiffSnaps(bo.Cur, js) {
		fc := fieldClass(d.Field)
		res.addV("C15", "import.state", fc, fmt.Sprintf("after importing the export of block %d: %s (left = exporter, right = importer)", bi, strings.Replace(strings.Replace(d.String(), "model=", "exporter=", 1), "impl=", "importer=", 1)), bi, -1)
		if fc == "last_matched_len" && j.Tainted == "" {
			j.Tainted = "last_matched_len"
		} else if fc != "last_matched_len" {
			j.Tainted = "other"
		}
	}
	e.joined = append(e.joined, j)
}

// probeExportMoment records at which kind of moment the export was taken.
func (e *execState) probeExportMoment(bo *blockObs) {
	for _, a := range bo.Cur.Auctions {
		k := fmt.Sprintf("export_with_status_%d", a.Status)
		e.res.Stats.Probes[k]++
		if a.Type == TypeBatch && a.Status == StStarted && len(a.EndTimes) > 1 {
			e.res.Stats.Probes["export_between_extended_rounds"]++
		}
		if a.Status == StVesting {
			for _, q := range a.Queue {
				if q.Released {
					e.res.Stats.Probes["export_vesting_partly_released"]++
					break
				}
			}
		}
	}
}

// joinedBlock feeds the block to every joined replica and compares it with the
// primary: tx results, ordered fundraising transfers, module state.
func (e *execState) joinedBlock(bo *blockObs, txs [][]byte) {
	res := e.res
	for _, j := range e.joined {
		if j.JoinedAt == bo.Idx || j.App == nil {
			continue
		}
		key := func(k string) string {
			if j.Tainted == "last_matched_len" {
				return "after:last_matched_len"
			}
			return k
		}
		j.ResetRec()
		for i := range bo.Blk.Pre {
			_ = e.applyOpImpl(j, i, &bo.Blk.Pre[i])
		}
		br := j.Finalize(bo.Blk.TimeNs, txs, "")
		if br.Panic != "" || br.Err != nil {
			res.addV("C15", "lockstep.block_failed", key("block"), fmt.Sprintf("replica %s failed block %d that the exporter executed: %v %s", j.Name, bo.Idx, br.Err, br.Panic), bo.Idx, -1)
			j.App = nil
			continue
		}
		stop := false
		for i := range bo.Resp.TxResults {
			if i < len(br.Resp.TxResults) && bo.Resp.TxResults[i].Code != br.Resp.TxResults[i].Code {
				res.addV("C15", "lockstep.tx_result", key("tx"), fmt.Sprintf("replica %s: tx %d of block %d has code %d, exporter %d (%s)", j.Name, i, bo.Idx, br.Resp.TxResults[i].Code, bo.Resp.TxResults[i].Code, abbreviate(br.Resp.TxResults[i].Log)), bo.Idx, i)
				stop = true
			}
		}
		if ok, d := sameOrderedCalls(bo.AllCalls, br.Calls); !ok {
			res.addV("C15", "lockstep.transfers", key("transfers"), fmt.Sprintf("replica %s made different transfers in block %d: %s", j.Name, bo.Idx, d), bo.Idx, -1)
			stop = true
		}
		if err := j.Commit(bo.Blk.TimeNs); err != nil {
			res.HarnessErr = "joined commit: " + err.Error()
			return
		}
		js, err := SnapFromImpl(j, e.tracked)
		if err != nil {
			res.addV("C15", "lockstep.unreadable", key("readout"), err.Error(), bo.Idx, -1)
			j.App = nil
			continue
		}
		for _, d := range DiffSnaps(bo.Cur, js) {
			fc := fieldClass(d.Field)
			if fc == "last_matched_len" && j.Tainted == "last_matched_len" {
				continue // already reported at import
			}
			res.addV("C15", "lockstep.state", key(fc), fmt.Sprintf("replica %s after block %d: %s (exporter vs importer)", j.Name, bo.Idx, d.String()), bo.Idx, -1)
			stop = true
		}
		if stop {
			j.App = nil // diverged: later comparisons would be noise
		}
		res.Stats.Probes["lockstep_blocks"]++
	}
}

// finalExportValidate: at the end of every history of the genesis profile the state is exported once more
// and must pass the module's own validation (states that take a whole history to reach - an auction that
// used all of its extended rounds, hundreds of bids - are rarely hit by the export moments drawn at random).
func (e *execState) finalExportValidate(last int) {
	n := e.node
	res := e.res
	defer func() {
		if r := recover(); r != nil {
			res.addV("C15", "export.panic", "export", fmt.Sprintf("export at the end of the history panicked: %v", r), last, -1)
		}
	}()
	ex, err := n.App.ExportAppStateAndValidators(false, nil, nil)
	if err != nil {
		res.addV("C15", "export.error", "export", "export at the end of the history failed: "+err.Error(), last, -1)
		return
	}
	var all map[string]json.RawMessage
	if err := json.Unmarshal(ex.AppState, &all); err != nil {
		res.HarnessErr = "export json: " + err.Error()
		return
	}
	var gs types.GenesisState
	if err := n.App.AppCodec().UnmarshalJSON(all[types.ModuleName], &gs); err != nil {
		res.addV("C15", "export.unmarshal", "export", "exported genesis does not unmarshal: "+err.Error(), last, -1)
		return
	}
	if err := gs.Validate(); err != nil {
		res.addV("C15", "export.validate", classifyGenesisErr(err.Error()), fmt.Sprintf("the genesis exported at the end of the history (%d auctions, %d allowed bidders, %d bids, %d instalments) fails the module's validation: %v", len(gs.AuctionList), len(gs.AllowedBidderList), len(gs.BidList), len(gs.VestingQueueList), err), last, -1)
	}
	res.Stats.Probes["final_export_validated"]++
}
