// descfix: removes the field option (amino.encoding) = "legacy_coins" from non-repeated fields in the
// file descriptors embedded in generated Go files (gogoproto *.pb.go: gzipped; pulsar *.pulsar.go: raw).
package main

import (
	"bytes"
	"compress/gzip"
	"fmt"
	"io"
	"os"
	"regexp"
	"strconv"
	"strings"

	"google.golang.org/protobuf/encoding/protowire"
	"google.golang.org/protobuf/proto"
	"google.golang.org/protobuf/types/descriptorpb"
)

const aminoEncodingField = 11110003

func stripUnknown(b []byte) ([]byte, int) {
	var out []byte
	removed := 0
	for len(b) > 0 {
		num, typ, n := protowire.ConsumeTag(b)
		if n < 0 {
			panic("bad tag")
		}
		m := protowire.ConsumeFieldValue(num, typ, b[n:])
		if m < 0 {
			panic("bad value")
		}
		field := b[:n+m]
		if num == aminoEncodingField && typ == protowire.BytesType {
			v, _ := protowire.ConsumeBytes(b[n:])
			if string(v) == "legacy_coins" {
				removed++
				b = b[n+m:]
				continue
			}
		}
		out = append(out, field...)
		b = b[n+m:]
	}
	return out, removed
}

func fixMsg(m *descriptorpb.DescriptorProto) int {
	n := 0
	for _, f := range m.Field {
		if f.GetLabel() == descriptorpb.FieldDescriptorProto_LABEL_REPEATED || f.Options == nil {
			continue
		}
		u := f.Options.ProtoReflect().GetUnknown()
		nu, r := stripUnknown(u)
		if r > 0 {
			f.Options.ProtoReflect().SetUnknown(nu)
			n += r
		}
	}
	for _, nm := range m.NestedType {
		n += fixMsg(nm)
	}
	return n
}

func fixDesc(raw []byte) ([]byte, int) {
	var fd descriptorpb.FileDescriptorProto
	if err := proto.Unmarshal(raw, &fd); err != nil {
		panic(err)
	}
	n := 0
	for _, m := range fd.MessageType {
		n += fixMsg(m)
	}
	if n == 0 {
		return raw, 0
	}
	out, err := proto.MarshalOptions{Deterministic: true}.Marshal(&fd)
	if err != nil {
		panic(err)
	}
	return out, n
}

var byteRe = regexp.MustCompile(`0x[0-9a-fA-F]{2}`)

func parseBytes(body string) []byte {
	var out []byte
	for _, h := range byteRe.FindAllString(body, -1) {
		v, _ := strconv.ParseUint(h[2:], 16, 8)
		out = append(out, byte(v))
	}
	return out
}

func formatBytes(b []byte) string {
	var sb strings.Builder
	for i := 0; i < len(b); i += 16 {
		sb.WriteString("\t")
		end := i + 16
		if end > len(b) {
			end = len(b)
		}
		for j := i; j < end; j++ {
			if j > i {
				sb.WriteString(" ")
			}
			fmt.Fprintf(&sb, "0x%02x,", b[j])
		}
		sb.WriteString("\n")
	}
	return sb.String()
}

func main() {
	for _, path := range os.Args[1:] {
		src, err := os.ReadFile(path)
		if err != nil {
			panic(err)
		}
		s := string(src)
		var startMarker string
		gz := strings.HasSuffix(path, ".pb.go")
		if gz {
			re := regexp.MustCompile(`var fileDescriptor_[0-9a-f]+ = \[\]byte\{\n`)
			loc := re.FindStringIndex(s)
			if loc == nil {
				panic("no descriptor in " + path)
			}
			startMarker = s[loc[0]:loc[1]]
		} else {
			re := regexp.MustCompile(`var file_[a-z0-9_]+_rawDesc = \[\]byte\{\n`)
			loc := re.FindStringIndex(s)
			if loc == nil {
				panic("no descriptor in " + path)
			}
			startMarker = s[loc[0]:loc[1]]
		}
		a := strings.Index(s, startMarker) + len(startMarker)
		e := a + strings.Index(s[a:], "\n}\n")
		body := s[a:e]
		raw := parseBytes(body)
		desc := raw
		if gz {
			zr, err := gzip.NewReader(bytes.NewReader(raw))
			if err != nil {
				panic(err)
			}
			desc, err = io.ReadAll(zr)
			if err != nil {
				panic(err)
			}
		}
		fixed, n := fixDesc(desc)
		if n == 0 {
			fmt.Printf("%s: nothing to do\n", path)
			continue
		}
		outBytes := fixed
		comment := ""
		if gz {
			var buf bytes.Buffer
			zw, _ := gzip.NewWriterLevel(&buf, gzip.BestCompression)
			zw.Write(fixed)
			zw.Close()
			outBytes = buf.Bytes()
			comment = fmt.Sprintf("\t// %d bytes of a gzipped FileDescriptorProto\n", len(outBytes))
		}
		ns := s[:a] + comment + formatBytes(outBytes) + s[e+1:]
		if err := os.WriteFile(path, []byte(ns), 0o644); err != nil {
			panic(err)
		}
		fmt.Printf("%s: removed %d option(s), descriptor %d -> %d bytes\n", path, n, len(desc), len(fixed))
	}
}
