module descfix

go 1.21

require google.golang.org/protobuf v1.34.2
