#!/bin/bash
# validates MANIFEST.json and every evidence file against the schemas in /root/.vp
python3-vt - <<'PY'
import json, jsonschema, glob, sys
ok=True
try:
    jsonschema.validate(json.load(open('/verif/MANIFEST.json')), json.load(open('/root/.vp/MANIFEST.schema.json')))
    print('MANIFEST.json valid')
except Exception as e:
    ok=False; print('MANIFEST.json INVALID:', str(e)[:300])
sch=json.load(open('/root/.vp/EVIDENCE.schema.json'))
m=json.load(open('/verif/MANIFEST.json'))
for c in m['checks']:
    f=c['evidence_file']
    try:
        e=json.load(open(f)); jsonschema.validate(e, sch)
        assert e['property_id']==c['property_id'] and e['level']==c['level_claimed']['category'], 'id/level mismatch'
    except Exception as ex:
        ok=False; print(f, 'INVALID:', str(ex)[:200])
print('evidence files:', len(m['checks']), 'ok' if ok else 'PROBLEMS')
sys.exit(0 if ok else 1)
PY
