#!/usr/bin/env python3
"""keepseed.py <tag> <name> <breaks> <also,comma> <change> <needs> <caught_by: id=text;id=text>
Stores a confirmed seeded change from /tmp/seed-out/<tag>/ as /verif/seeded/<name>/ (patch.diff, demo, notes, meta.json)."""
import json, os, shutil, sys
tag, name, breaks, also, change, needs, caught = sys.argv[1:8]
src = '/tmp/seed-out/' + tag
dst = '/verif/seeded/' + name
os.makedirs(dst, exist_ok=True)
for f in ('patch.diff', 'zz_seeded_demo_test.go', 'notes.md'):
    shutil.copy(os.path.join(src, f), os.path.join(dst, f))
meta = {
 "breaks_property": breaks,
 "also_breaks": [x for x in also.split(',') if x],
 "change": change,
 "needs_to_manifest": needs,
 "source": "independent sub-agent given only the property text and a scratch worktree",
 "confirmed": "seedverify.sh in a fresh scratch worktree: patch applies, go build ok, existing suite passes with the change, demonstration fails with the change and passes without it",
 "checks_run": "seedtest.sh <patch> 40 <ids> (quick tier, 40 s budget, isolated scratch worktree and simulator build)",
 "caught_by": dict(x.split('=', 1) for x in caught.split(';') if x),
}
json.dump(meta, open(os.path.join(dst, 'meta.json'), 'w'), indent=1)
print('kept', name)
