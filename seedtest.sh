#!/bin/bash
# usage: seedtest.sh <patch.diff> <budget_s> <id> [<id> ...]
# Applies a seeded change to /repo, runs the given checks (quick tier, given budget), and undoes it.
PATCH="$1"; BUDGET="$2"; shift 2
cd /repo || exit 2
if ! git diff --quiet; then echo "/repo has uncommitted changes"; exit 2; fi
git apply "$PATCH" || { echo "patch does not apply"; exit 2; }
restore() {
  git -C /repo checkout -- . ; git -C /repo clean -fdq x app cmd 2>/dev/null
  # rebuild the simulator from the restored tree so that bin/verifsim is never left built from a seeded change
  (cd /verif/sim && GOFLAGS=-mod=mod GOPROXY=off GOSUMDB=off GOTOOLCHAIN=local go build -tags verif -o /verif/bin/verifsim ./cmd/verifsim)
}
trap restore EXIT
cd /verif
for id in "$@"; do
  out=$(VERIF_BUDGET_S=$BUDGET VERIF_DIR=/var/tmp/seedtest-verif ./check.sh "$id" quick 2>&1); rc=$?
  echo "== $id rc=$rc: $(echo "$out" | grep -c '^VIOLATION') violation line(s)"
  echo "$out" | grep '^violation detail\|^VIOLATION\|^HARNESS\|BUILD FAILED' | cut -c1-400 | head -6
done
