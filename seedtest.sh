#!/bin/bash
# usage: seedtest.sh <patch.diff> <budget_s> <id> [<id> ...]
# Runs the given checks (quick tier, given budget) against /repo + a seeded change WITHOUT touching
# /repo or /verif/bin: a scratch worktree of /repo gets the patch, a scratch copy of /verif/sim is
# built against it, evidence and replays go to a scratch directory. Everything is removed afterwards.
# (The same can be done in place: git -C /repo apply <patch>; ./check.sh <id> quick; git -C /repo checkout -- .)
PATCH="$(readlink -f "$1")"; BUDGET="$2"; shift 2
export GOFLAGS=-mod=mod GOPROXY=off GOSUMDB=off GOTOOLCHAIN=local
S=$(mktemp -d /var/tmp/verif-seedtest.XXXXXX)
cleanup() { if [ -n "${KEEP_REPLAYS:-}" ] && [ -d "$S/verif/replays" ]; then mkdir -p "$KEEP_REPLAYS"; cp "$S"/verif/replays/* "$KEEP_REPLAYS"/ 2>/dev/null; fi; git -C /repo worktree remove --force "$S/repo" 2>/dev/null; rm -rf "$S"; git -C /repo worktree prune; }
trap cleanup EXIT
# every scratch worktree path leaves its own entries in the Go build cache (about 1 GB per run): trim what
# has not been used for three hours once the cache passes 60 GB
if [ "$(du -sm /root/.cache/go-build 2>/dev/null | cut -f1)" -gt 60000 ] 2>/dev/null; then find /root/.cache/go-build -type f -mmin +180 -size +512k -delete 2>/dev/null; fi
git -C /repo worktree add -q --detach "$S/repo" HEAD || exit 2
( cd "$S/repo" && git apply "$PATCH" ) || { echo "patch does not apply"; exit 2; }
mkdir -p "$S/verif"; cp /verif/known_findings.json "$S/verif/"
cp -r "${SIM_SRC:-/verif/sim}" "$S/sim"
sed -i "s#=> /repo#=> $S/repo#" "$S/sim/go.mod"
if ! ( cd "$S/sim" && go build -tags verif -o "$S/verifsim" ./cmd/verifsim ) 2>"$S/build.log"; then cat "$S/build.log"; echo "BUILD FAILED"; exit 2; fi
for id in "$@"; do
  VERIF_REPO="$S/repo" VERIF_BUDGET_S=$BUDGET VERIF_DIR="$S/verif" "$S/verifsim" check "$id" --tier quick > "$S/out.log" 2>&1; rc=$?
  out=$(grep -v '^sellingReserve: \|^auction.GetSellingCoin(): ' "$S/out.log")
  echo "== $id rc=$rc: $(echo "$out" | grep -c '^VIOLATION') violation line(s)"
  echo "$out" | grep '^violation detail\|^VIOLATION\|^HARNESS\|BUILD FAILED\|^NOTE' | cut -c1-400 | head -6
done
