#!/bin/bash
# runs every registered quick (or thorough) check, prints a one-line summary each
TIER="${1:-quick}"
for id in $(python3 -c "import json;print(' '.join(c['property_id'] for c in json.load(open('/verif/MANIFEST.json'))['checks']))"); do
  s=$(date +%s)
  out=$(./check.sh $id $TIER 2>&1); rc=$?
  e=$(date +%s)
  echo "$id rc=$rc $((e-s))s $(echo "$out" | grep -c '^VIOLATION') violations $(echo "$out" | grep -c '^KNOWN-FINDING') known | $(echo "$out" | tail -1 | cut -c1-160)"
  echo "$out" | grep '^VIOLATION\|^HARNESS\|^NONDETERMINISM' | head -5
done
