#!/bin/bash
# usage: seedeval.sh <tag> <budget_s> <id> [<id>...]   (expects /tmp/seed-out/<tag>/patch.diff and a demo test)
# verify + run the given checks in isolation; one summary block
TAG="$1"; B="$2"; shift 2
cd /verif
echo "######## $TAG"
echo "verify: $(./seedverify.sh $TAG /tmp/seed-out/$TAG 2>&1 | grep -v '^sellingReserve\|^auction.GetSelling' | tail -3 | tr '\n' ';')"
./seedtest.sh /tmp/seed-out/$TAG/patch.diff $B "$@" 2>&1 | grep "^==\|^violation detail" | cut -c1-240 | head -8
