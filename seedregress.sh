#!/bin/bash
# regression over all kept seeded changes: each against its target check (quick tier, budget $1 s), 4 at a time
B=${1:-30}
cd /verif
# snapshot of the simulator sources, so that editing /verif/sim during the run does not change what is tested
rm -rf /var/tmp/simsnap; cp -r /verif/sim /var/tmp/simsnap; export SIM_SRC=/var/tmp/simsnap
ls seeded | while read n; do
  id=$(python3 -c "import json;print(json.load(open('seeded/$n/meta.json'))['breaks_property'])")
  echo "$n $id"
done > /var/tmp/seedregress.list
cat /var/tmp/seedregress.list | xargs -P 3 -L 1 bash -c 'r=$(/verif/seedtest.sh /verif/seeded/$0/patch.diff '$B' $1 2>&1 | grep "^== " | head -1); echo "$0 $r"' > /var/tmp/seedregress.log 2>&1
echo done >> /var/tmp/seedregress.log
rm -rf /var/tmp/simsnap
