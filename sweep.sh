#!/bin/bash
# usage: sweep.sh [budget_s] [seed ...]   false-alarm sweep: every simulation check with other VERIF_SEED values
# (default 25 s each, seeds 7 42 1000 31337), evidence and replays go to a scratch directory, not to /verif
B=${1:-25}; shift
SEEDS="${@:-7 42 1000 31337}"
D=$(mktemp -d /var/tmp/verif-sweep.XXXXXX); cp /verif/known_findings.json "$D/"
trap 'rm -rf "$D"' EXIT
cd /verif
for seed in $SEEDS; do
 for id in C01 C02 C03 C04 C05 C06 C07 C08 C09 C10 C11 C12 C13 C14 C15 C16 C17 C18 C19; do
  out=$(VERIF_SEED=$seed VERIF_BUDGET_S=$B VERIF_DIR=$D /verif/bin/verifsim check $id --tier quick 2>&1 | grep -v '^sellingReserve\|^auction.GetSelling')
  echo "seed=$seed $id $(echo "$out" | grep -c '^VIOLATION') viol | $(echo "$out" | tail -1 | cut -c1-120)"
  echo "$out" | grep '^VIOLATION\|^violation detail\|^HARNESS\|^NONDET\|^NOTE' | head -4 | cut -c1-300
 done
done
