#!/usr/bin/env python3
"""Regenerates the table of seeded changes in DESIGN.md (§12) from /verif/seeded/*/meta.json."""
import json, os, re
rows=[]
for name in sorted(os.listdir('/verif/seeded')):
    p=f'/verif/seeded/{name}/meta.json'
    if not os.path.exists(p): continue
    m=json.load(open(p))
    caught='; '.join(f"{k}: {v}" for k,v in m['caught_by'].items())
    missed=m.get('initially_missed_by','')
    rows.append(f"| `{name}` | {m['breaks_property']}" + (f" (+{', '.join(m['also_breaks'])})" if m['also_breaks'] else "") + f" | {m['change']} | {m['needs_to_manifest']} | {caught}" + (f" **Initially missed by** {missed}" if missed else "") + " |")
table="| seeded change | breaks | what it changes | needs | caught by (oracle rules) |\n|---|---|---|---|---|\n"+"\n".join(rows)
s=open('/verif/DESIGN.md').read()
begin,end='<!-- SEEDED-TABLE-BEGIN -->','<!-- SEEDED-TABLE-END -->'
if begin in s:
    s=re.sub(re.escape(begin)+'.*?'+re.escape(end), begin+'\n'+table+'\n'+end, s, flags=re.S)
else:
    s+=f"""
---------------------------------------------------------------------------

## 12. Seeded changes: which check catches which deliberate break

Independent sub-agents were given only the text of one property and a scratch
worktree of /repo (nothing from /verif) and asked for a change that breaks the
property, still compiles and passes the existing suite, and needs something
specific to manifest; each came with a demonstration test. Every change below
was confirmed in a fresh scratch worktree (`seedverify.sh`: applies, builds,
suite passes, demonstration fails with it and passes without it), then applied
to /repo, the listed checks were run for 20-25 s each (`seedtest.sh`), and it
was undone. `/verif/seeded/<name>/` holds patch.diff, the demonstration,
the agent's notes and meta.json. Three rounds were run; several agents
independently produced the same change (noted per row), which is kept once.

{begin}
{table}
{end}

What the seeded changes taught (and what was changed in response):

* A disagreement between model and implementation used to end the run. A
  seeded change whose *first* visible effect belongs to another property
  (`C08-skip-zero-instalments`: first a missing C09 queue entry, only later an
  auction that never finishes) was then invisible to the check of the property
  it was written against. Runs now continue **model-free** after the first
  disagreement: blocks are still executed and every oracle that reads only the
  implementation's records keeps running; a direct "finished on time" oracle
  was added to C08.
* Payment bounds (C04) were only checked through equality with the model. A
  model-independent oracle now recomputes, from the stored bids, the recorded
  refund transfers and the published clearing price, that every winner paid
  within [ceil(p*q), p*q + k) and every loser nothing.
"""
open('/verif/DESIGN.md','w').write(s)
print(len(rows),'rows')
