#!/bin/bash
# usage: check.sh <property id> <quick|thorough>
# Rebuilds the simulator against /repo's current working tree (build tag verif),
# then runs the check. Exit 0 = held, 1 = VIOLATION, 2 = build/harness trouble.
set -u
ID="$1"; TIER="${2:-quick}"
export GOFLAGS=-mod=mod GOPROXY=off GOSUMDB=off GOTOOLCHAIN=local
cd /verif/sim || exit 2
[ -f go.sum ] || cp /repo/go.sum .
mkdir -p /verif/bin
if ! go build -tags verif -o /verif/bin/verifsim ./cmd/verifsim 2>/tmp/verif-build.$$.log; then
  # a tree that does not compile is build trouble, not a violation
  cat /tmp/verif-build.$$.log; rm -f /tmp/verif-build.$$.log
  echo "BUILD FAILED"
  exit 2
fi
rm -f /tmp/verif-build.$$.log
cd /verif
export VERIF_TIER="$TIER"
/verif/bin/verifsim check "$ID" --tier "$TIER" 2>&1 | grep -v '^sellingReserve: \|^auction.GetSellingCoin(): '
exit ${PIPESTATUS[0]}
