#!/bin/bash
# usage: seedverify.sh <name> <dir with patch.diff and zz_seeded_demo_test.go> [demo target path relative to repo]
# Confirms a seeded change in a fresh scratch worktree: applies, builds, existing suite passes,
# demonstration fails with the change and passes without it.
NAME="$1"; DIR="$2"; TARGET="${3:-x/fundraising/keeper/zz_seeded_demo_test.go}"
export GOFLAGS=-mod=mod GOPROXY=off GOSUMDB=off GOTOOLCHAIN=local
WT=/tmp/sv-$NAME
git -C /repo worktree add -q --detach $WT HEAD || exit 2
trap 'git -C /repo worktree remove --force '$WT EXIT
cd $WT
git apply "$DIR/patch.diff" || { echo "APPLY FAILED"; exit 1; }
go build ./... || { echo "BUILD FAILED"; exit 1; }
if go test -count=1 ./... 2>&1 | grep -v "no test files" | grep -q "^FAIL\|^--- FAIL"; then echo "EXISTING SUITE FAILS WITH CHANGE"; exit 1; else echo "existing suite passes with change"; fi
DEMO=$(ls "$DIR"/*_test.go | head -1)
cp "$DEMO" "$TARGET"
PKG=./$(dirname "$TARGET")
# testify suites need -testify.m to select a method; a package without a suite does not know the flag
rundemo() {
  if grep -q "suite\.\|KeeperTestSuite" "$TARGET"; then
    go test -count=1 -run 'Seeded|Demo|TestKeeperTestSuite' $PKG -testify.m 'Seeded|Demo' 2>&1
  else
    go test -count=1 -run 'Seeded|Demo' $PKG 2>&1
  fi
}
if rundemo | grep -q "^--- FAIL\|^FAIL"; then echo "demo FAILS with change (expected)"; else echo "DEMO DOES NOT FAIL WITH CHANGE"; fi
git apply -R "$DIR/patch.diff"
if rundemo | grep -q "^--- FAIL\|^FAIL"; then echo "DEMO FAILS WITHOUT CHANGE"; else echo "demo passes without change (expected)"; fi
