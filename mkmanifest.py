#!/usr/bin/env python3
"""Regenerates /verif/MANIFEST.json from the table below (keeps it valid and in sync)."""
import json, subprocess

HOOK_COMMITS = ["f60ad7f"]

TECH = ("deterministic simulation with fault injection: seeded search over schedules (simulated block clock, "
        "mempool order/duplication, crash-restart before/after commit, lost commit, optimistic-execution abort/hit, "
        "injected bank and listener failures, third-party deposits) executed on real app.App replicas in one process, "
        "in lock-step with a math/big reference model; ddmin-shrunk JSON replay files")

NOTE = ("Sampling, not proof: holds on the schedules explored. Trusted base: the reference model (sim/model.go), "
        "SDK BaseApp/bank/auth as linked, IAVL commit atomicity; CometBFT is replaced by the scheduler.")

# id -> (level, design_ref, text, extra technique)
P = {
 "C01": ("exploration", "§6 C01", "After every block (most generated blocks carry one message) the balance of each auction's three escrow addresses is compared, in every denomination, with what the implementation's own stored records owe (offered amount / sum of required reservations of stored bids / unreleased instalments) plus exactly the third-party deposits the simulator made and the module has not swept; per-message transfers are compared with the model. Histories include rounding-prone prices, modifications, both fixed-price denominations, foreign deposits into all escrows, crash re-execution.", ""),
 "C02": ("exploration", "§6 C02", "Per block: zero-sum of all participant/escrow balance changes plus recorded community-pool fundings, per denomination; per message: the net effect of its transfers per address and denomination equals the model's (fee in force, own reservation only, debits only from the signer); histories end with a drain phase so that every auction reaches finished/cancelled and final entitlements are compared with the model; one history in seven is a single auction with 100-200 bids.", ""),
 "C03": ("exploration", "§6 C03", "At every end time of every generated batch order book the settlement transfers are compared with the model's linear scan from the lowest bid price (capped demand per bidder, exact integer arithmetic); order books come from real message histories with dust bids, duplicate prices, caps changed between rounds.", ""),
 "C04": ("exploration", "§6 C04", "Payments (reservation minus refund) per bidder at settlement are compared with the model (uniform clearing price, ceil per matched bid) and fixed-price reservations with exact ceil/floor; awkward 18-decimal prices and tiny amounts are the default scale.", ""),
 "C05": ("exploration", "§6 C05", "From the recorded settlement transfers: total distributed <= offered, per bidder <= allow-list cap (at acceptance for each fixed-price bid, at settlement for batch) and <= requested; caps are raised/lowered between bids and rounds.", ""),
 "C06": ("exploration", "§6 C06", "Each fixed-price bid is accepted iff the model's predicate holds; the published remainder equals offered minus accepted after every block; and the history of bid/read operations of every fixed-price auction is checked for linearizability with porcupine against a sequential (remaining, used-allowance) model, transactions of one block being concurrent operations.", "; porcupine v1.3.0 linearizability of recorded histories"),
 "C07": ("fault_enumeration", "§6 C07", "(a) no FinalizeBlock of any explored history (idle tails after terminal auctions, skipped boundaries, extreme amounts, crash re-execution) may return an error or panic; (b) for blocks whose begin-block makes n bank/pool calls a failure is injected into each call k<n on a scratch replica forked from the pre-block disk, and FinalizeBlock must report it whatever the position of the affected auction.", "; exhaustive per-block enumeration of bank-call failures on forked replicas"),
 "C08": ("exploration", "§6 C08", "Stored status after every block equals the model's status machine; only allowed edges, never before the instant, never later than the first block at/after it; finished/cancelled never change; bids/modifications accepted iff the model says open. Block times are biased to land on, 1 ns before and 1 ns after every start/end/release instant and to skip several; 3 % of auctions are scheduled beyond the year 2262; one history in seven holds more than a hundred auctions.", ""),
 "C09": ("exploration", "§6 C09", "At settlement the instalments are compared with floor(proceeds*weight) / remainder computed from the recorded proceeds transfer; every instalment must be paid exactly once, in the first block at/after its release time in which the auction is vesting, with the released flag flipping in the same block; crash re-execution and lost commits on release blocks.", ""),
 "C10": ("exploration", "§6 C10", "An adversary submits signed MsgAddAllowedBidder transactions in every state: all must be rejected and the allow-list unchanged; every stored bid's bidder must have an allow-list entry; the process (which links the app like cmd/fundraisingd and is built without the testing link flag) must have the switch off. Build part (not simulation, reported separately in evidence): the default-built binary vs the documented link-flag build.", "; plus a default-build probe of cmd/fundraisingd"),
 "C11": ("exploration", "§6 C11", "Modification chains by owners and strangers with new price/amount drawn from lower/equal/higher: accepted iff the model's predicate; charge equals the increase in required reservation; every bid ever seen still exists with the same auction, owner, type and denomination and never lower terms.", ""),
 "C12": ("exploration", "§6 C12", "Cancel attempted by auctioneer and others before/at/after the start instant, after finish, twice, with third-party deposits in the escrow: accepted iff signer is the auctioneer and the model status is waiting; full refund transfer, remainder 0, terminal auctions never change again.", ""),
 "C13": ("exploration", "§6 C13", "At every end time the model decides extend/settle on exact rationals from the previous matched count; appended end time = previous + period*24h with the period in force; number of end times <= 1+max rounds; every history is drained so each auction settles.", ""),
 "C14": ("exploration", "§6 C14", "Shadow replicas are fed the same block log; crash-before-commit and lost-commit re-execute blocks on the same replica; optimistic execution is aborted/hit: FinalizeBlock response bytes, ordered bank-call record and app hash must be identical; the trace hash of the same schedule is compared across OS processes at GOMAXPROCS 1/4/16.", "; cross-process trace-hash self-test"),
 "C15": ("exploration", "§6 C15", "At random moments (biased to settlement/extension/release blocks) the whole application state is exported, the module's genesis is validated, a fresh replica is initialised from it, compared collection by collection with the exporter and then fed the same subsequent blocks in lock-step (tx codes, ordered transfers, module state); every history ends with one more export that must validate (auctions that used all 30 extended rounds are reached on purpose).", ""),
 "C16": ("exploration", "§6 C16", "After settlement matched flags and the published matched price are compared with the model's final settlement, released flags with recorded payments; every query (by id, every status/type/auction/bidder/is_matched filter combination, random page sizes) is issued through the app's ABCI Query path and must return exactly the stored objects satisfying the request.", ""),
 "C17": ("fault_enumeration", "§6 C17", "With L=1..3 recording listeners: every successful operation calls each listener exactly once, in order, with the values used (compared with the model) and before the announced record is stored; then for every hook method a history triggers and every listener position j<L the history is re-executed with listener j failing: message => tx rejected with nothing written, keeper op => error, settlement => FinalizeBlock error, listeners after j not called.", "; enumeration of (hook method x L x failing position)"),
 "C18": ("exploration", "§6 C18", "Every message type is generated valid and invalid for exactly one reason (field shape, missing auction, wrong type/status/denomination, floor/fixed price, allowance, remainder, signer, funds) in every model state, plus duplicated/reordered/forged transactions and bank failures injected inside transactions: result code 0 iff the model's predicate; for every rejected tx the per-tx KV write set (store tracer) in fundraising/bank/distribution is empty.", "; per-tx KV write sets via the store tracer"),
 "C19": ("exploration", "§6 C19", "Histories with several concurrent auctions sharing auctioneers, bidders and denominations: per-tx KV write sets must stay inside the key space and escrow/participant balances of the auction the operation names; immutable terms, bid identity, id order and counters are checked after every block; an auction that no operation names and that passes no boundary must not change; and every history is executed a second time restricted to one of its auctions (all others deleted) on a fresh replica: verdicts, record, bids, allow-list, instalments and escrow balances of the kept auction must be the same in both runs. Derivation part (not simulation, a pure-function probe run once per process): the three escrow addresses of the ids 0..4095, around every power of two and 2^64-1 equal the documented derivation and are pairwise distinct.", "; per-tx KV write sets via the store tracer; projection of the history onto one auction on a second replica"),
 "C20": ("exploration", "§6 C20", "The default-built binary must start; the command tree is enumerated from its own help output and every message/query must be reachable; seeded histories are driven through the binary (--generate-only output is decoded, compared with what was typed, signed by the simulator and executed on the simulated chain); every query command is run by the binary against the simulated node through a request/response RPC shim and its display compared with the node's state. Boot part (not simulation, reported separately): --help of every command, and a real single-node chain initialised and started from the binary must produce blocks, answer a query and include a transaction broadcast through the command line.", "; CLI-in-the-loop with the real default-built binary"),
}
ALL = ["C%02d" % i for i in range(1, 21)]

checks = []
na = []
for pid in ALL:
    if pid in P:
        level, ref, text, tech = P[pid]
        checks.append({
            "property_id": pid,
            "quick_cmd": "./check.sh %s quick" % pid,
            "thorough_cmd": "./check.sh %s thorough" % pid,
            "evidence_file": "/verif/evidence/%s.json" % pid,
            "replay_cmd_template": "bin/verifsim replay {path}",
            "engine": "verifsim",
            "level_claimed": {"category": level, "text": text, "design_ref": "DESIGN.md " + ref},
            "level_note": NOTE,
            "technique": TECH + tech,
        })
    else:
        na.append({"property_id": pid, "reason": "not registered"})

m = {
 "version": 1,
 "setup_cmd": "cd /verif/sim && export GOFLAGS=-mod=mod GOPROXY=off GOSUMDB=off GOTOOLCHAIN=local && cp /repo/go.sum . && mkdir -p /verif/bin && go build -tags verif -o /verif/bin/verifsim ./cmd/verifsim",
 "hooks": {
   "guard": "verif",
   "enable": "go build -tags verif (x/fundraising/keeper/verif_on.go: VerifInstrument is called at the end of keeper.NewKeeper; verif_off.go is an empty function)",
   "baseline_off_cmd": json.load(open('/root/.vp/BASELINE.json'))["cmd"],
   "source_commits": HOOK_COMMITS,
   "add_only": True,
 },
 "engines": [{"name": "verifsim", "path": "/verif/sim", "serves_properties": [c["property_id"] for c in checks],
              "kind_free_text": "deterministic simulator: real app.App replicas in one process, seeded scheduler for block clock / mempool / crashes / faults, math/big reference model, ddmin shrinker, JSON replay files"}],
 "checks": checks,
 "not_applicable": na,
 "notes": "Every check rebuilds the simulator from /repo's working tree with -tags verif (check.sh). Exit 2 = build/harness trouble, never a VIOLATION. Known findings and the log of repaired defects: /verif/known_findings.json. No property is not-applicable: each has a schedule, clock, fault or multi-party dimension (DESIGN.md §6 states which parts of C03/C04/C10/C20 have none).",
}
json.dump(m, open('/verif/MANIFEST.json', 'w'), indent=1)
print("checks:", len(checks), "not_applicable:", len(na))
