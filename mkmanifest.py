#!/usr/bin/env python3
"""Regenerates /verif/MANIFEST.json from the table below (keeps it valid and in sync)."""
import json, subprocess

HOOK_COMMITS = ["f60ad7f"]

TECH = "deterministic simulation with fault injection: seeded search over schedules (block clock, mempool order, crashes/restarts, optimistic-execution aborts, injected bank/hook failures) on the real app.App, checked in lock-step against a math/big reference model"

# id -> (built?, level, design_ref, text, note, technique-suffix)
P = {
 "C07": (True, "fault_enumeration", "DESIGN.md §6 C07",
   "Every simulated block of every explored history must finalize without error or panic (exploration over histories, clocks, idle tails, extreme amounts); in addition, for every block whose begin-block makes bank/pool calls, a failure is injected into each call in turn on a scratch replica and FinalizeBlock must report it (fault enumeration).",
   "Sampling of histories; enumeration is complete per sampled block. Trusted: SDK BaseApp/bank behave as in production; CometBFT stubbed.",
   "; bank-call failure enumeration on forked replicas"),
}
PENDING = {}
ALL = ["C%02d" % i for i in range(1, 21)]

checks = []
na = []
for pid in ALL:
    if pid in P and P[pid][0]:
        _, level, ref, text, note, tech = P[pid]
        checks.append({
            "property_id": pid,
            "quick_cmd": "./check.sh %s quick" % pid,
            "thorough_cmd": "./check.sh %s thorough" % pid,
            "evidence_file": "/verif/evidence/%s.json" % pid,
            "replay_cmd_template": "bin/verifsim replay {path}",
            "engine": "verifsim",
            "level_claimed": {"category": level, "text": text, "design_ref": ref},
            "level_note": note,
            "technique": TECH + tech,
        })
    else:
        na.append({"property_id": pid, "reason": "check not yet registered in this commit (machinery under construction; see DESIGN.md §6 for the planned decision procedure)"})

m = {
 "version": 1,
 "setup_cmd": "cd /verif/sim && export GOFLAGS=-mod=mod GOPROXY=off GOSUMDB=off GOTOOLCHAIN=local && cp /repo/go.sum . && mkdir -p /verif/bin && go build -tags verif -o /verif/bin/verifsim ./cmd/verifsim",
 "hooks": {
   "guard": "verif",
   "enable": "go build -tags verif (x/fundraising/keeper/verif_on.go: VerifInstrument is called at the end of keeper.NewKeeper; verif_off.go is an empty function)",
   "baseline_off_cmd": json.load(open('/root/.vp/BASELINE.json'))["cmd"],
   "source_commits": HOOK_COMMITS,
   "add_only": True,
 },
 "engines": [{"name": "verifsim", "path": "/verif/sim", "serves_properties": [c["property_id"] for c in checks],
              "kind_free_text": "deterministic simulator: real app.App replicas in one process, seeded scheduler for block clock / mempool / crashes / faults, math/big reference model, ddmin shrinker, JSON replay files"}],
 "checks": checks,
 "not_applicable": na,
 "notes": "Every check rebuilds the simulator from /repo's working tree with -tags verif (check.sh). Exit 2 = build/harness trouble, never a VIOLATION. Known findings: /verif/known_findings.json.",
}
json.dump(m, open('/verif/MANIFEST.json', 'w'), indent=1)
print("checks:", len(checks), "not_applicable:", len(na))
